"""C20 - source-data hash: region hashed, algorithm/slot, byte representation, carried by re-block."""
import ast
from ..core import U, AnalysisError, parent, enclosing_stmt
from ..facts import FactMap, happened_before
from .. import producers as PR
from .. import tables as TB
from .. import headerrules as HR
from ..axes import axis_of_text

PROP = 'C20'
EXPLANATION = (
    'C20.1: in every producer the buffer region passed to hash_object.update has, per axis, lower bound 0 and as '
    'upper bound the real extent: on the grouped axis the per-group real count (the variable defined by the idiom '
    '`n % bs if (group+1)*bs > n else bs`, as loop range or slice bound - GROUP frame, not the file-wide count), on '
    'the other axes the same real extents that bound the real-data region (never a padded extent); the update lies '
    'inside the group loop, precedes the put of that group, and happens once per group. C20.2: one '
    'hashlib.new(\'sha1\') object, its digest returned by the conversion loop and patched at byte 960 by both '
    'converters; the reader exposes bytes 960:980 (= sha1 digest size). C20.3: what is hashed is a .copy() '
    '(C-contiguous) of a slice of a float32 buffer. C20.4: the re-blocker starts from a copy of the source header and '
    'stores nothing into 960:980.')
EXPLANATION += (
    ' ADDED: Every hash-update site is checked separately (alternative branches allowed, two sites on one path are not); a site that hashes the whole group buffer is a violation; the per-group count is decided semantically (rule of C01.9); a local alias of the region is followed.'
)
EXPLANATION += (
    ' C20.2 also: the hash object is created per conversion (inside the conversion loop or a run() body), never in a constructor or kept on an object that can run several conversions.'
)
ASSUMPTIONS = ['hashlib sha1; numpy .copy() yields C-contiguous float32 bytes; producers run on the calling thread in group order (C16)']
NOT_DECIDED = 'Equality with SHA-1 of the source samples (values); equality between the two SEG-Y readers (segyio semantics).'


def run(ctx):
    P, G = ctx.P, ctx.G
    ctx.rule('C20.1', 'hash region = per-group real extent on the grouped axis, real extents elsewhere; once per group, before put')
    ctx.rule('C20.2', 'one sha1 object; digest patched at 960 by both converters; reader exposes 960:980')
    ctx.rule('C20.3', 'hashed bytes are a C-contiguous copy of a float32 buffer slice')
    ctx.rule('C20.4', 're-blocking carries the hash slot')
    pl, prods = PR.producers(P, G)
    for pr in prods:
        hash_region(ctx, pr)
    ctx.floor('C20.1', 3)
    algorithm(ctx, pl)
    carried(ctx)


def _exclusive(f, a, b):
    """a and b lie in different branches of one If."""
    def chain(n):
        out = []
        p, child = parent(n), n
        while p is not None and p is not f.node:
            if isinstance(p, ast.If):
                out.append((p, 'body' if any(child is s or any(child is x for x in ast.walk(s)) for s in p.body) else 'else'))
            child, p = p, parent(p)
        return out
    ca, cb = chain(a), chain(b)
    for (n1, s1) in ca:
        for (n2, s2) in cb:
            if n1 is n2 and s1 != s2:
                return True
    return False


def hash_region(ctx, pr):
    f = pr.func
    ups = pr.hash_updates
    if not ups:
        ctx.fail('C20.1', f, f.name, 'producer %s never updates the hash' % f.name)
        return
    for i, a in enumerate(ups):
        for b in ups[i + 1:]:
            if not _exclusive(f, a, b):
                ctx.fail('C20.1', f, enclosing_stmt(b), 'producer %s updates the hash at two sites that are not alternative '
                         'branches: samples are hashed twice' % f.name, line=b.lineno)
                return
    from .. import groupcount
    n0 = len(ctx.findings)
    gc, gdefs = groupcount.check_producer(ctx, 'C20.1', f)
    if not gdefs:
        if len(ctx.findings) > n0:
            return       # the count itself is wrong (reported above): the hash region inherits that
        raise AnalysisError('%s: per-group real-count definition not found' % f.qualname)
    for u in ups:
        _hash_site(ctx, pr, u, gdefs)


def _hash_site(ctx, pr, u, gdefs):
    f = pr.func
    gname, (gk, filecount) = next(iter(gdefs.items()))
    arg = u.args[0] if u.args else None
    copied = isinstance(arg, ast.Call) and isinstance(arg.func, ast.Attribute) and arg.func.attr == 'copy'
    sub = arg.func.value if copied else arg
    # a local alias of the region: real = buffer[...]
    if isinstance(sub, ast.Name):
        ds = [a for a in ast.walk(f.node) if isinstance(a, ast.Assign) and len(a.targets) == 1 and U(a.targets[0]) == sub.id]
        if len(ds) == 1 and isinstance(ds[0].value, (ast.Subscript, ast.Call)):
            v = ds[0].value
            if isinstance(v, ast.Call) and isinstance(v.func, ast.Attribute) and v.func.attr == 'copy':
                copied = True
                v = v.func.value
            if isinstance(v, ast.Subscript):
                sub = v
    if not isinstance(sub, ast.Subscript):
        ctx.fail('C20.1', f, enclosing_stmt(u), 'the hash is updated with `%s`, not with the real region of the group buffer: '
                 'the replicated planes / traces that pad a partial last group (and any padded cells) are hashed too' % U(arg)[:60],
                 line=u.lineno)
        return
    elts = list(sub.slice.elts) if isinstance(sub.slice, ast.Tuple) else [sub.slice]
    ndim = len(elts)
    probs = []
    grouped_pos = 0
    grouped_ok = False
    # loop over the real items of the group?
    lp = parent(enclosing_stmt(u))
    loopvar = None
    axis_offset = 0
    if isinstance(lp, ast.For) and lp is not pr.group_loop:
        loopvar = U(lp.target)
        it = lp.iter
        if U(lp.iter) == 'range(%s)' % gname:
            grouped_ok = True
        elif isinstance(it, ast.Subscript) and isinstance(sub.value, ast.Name) and sub.value.id == loopvar and \
                isinstance(lp.target, ast.Name):
            # iteration over the leading real items of the buffer itself:  for item in buffer[:g]:  update(item[0:n, 0:m])
            first = it.slice.elts[0] if isinstance(it.slice, ast.Tuple) and it.slice.elts else it.slice
            rest = it.slice.elts[1:] if isinstance(it.slice, ast.Tuple) else []
            whole = all(isinstance(r, ast.Slice) and r.lower is None and r.upper is None and r.step is None for r in rest)
            if isinstance(first, ast.Slice) and (first.lower is None or U(first.lower) == '0') and first.step is None and \
                    first.upper is not None and U(first.upper) == gname and whole:
                grouped_ok = True
                grouped_pos = -1
                axis_offset = 1
                ndim += 1
            else:
                probs.append('the per-item loop ranges over `%s`, not over the real items of the group (%s)' % (U(lp.iter), gname))
        else:
            probs.append('the per-item loop ranges over `%s`, not over the real items of the group (%s)' % (U(lp.iter), gname))
    for j, e in enumerate(elts):
        if j == grouped_pos:
            if loopvar is not None and U(e) == loopvar:
                continue
            if isinstance(e, ast.Slice) and (e.lower is None or U(e.lower) == '0') and e.upper is not None:
                if U(e.upper) == gname:
                    grouped_ok = True
                else:
                    probs.append('grouped axis: the region ends at `%s`%s, the real items of this group are `%s`' % (
                        U(e.upper), ' (the file-wide count)' if U(e.upper) == filecount else '', gname))
                continue
            probs.append('grouped axis index `%s` is neither the per-item loop variable nor 0:%s' % (U(e), gname))
            continue
        if not (isinstance(e, ast.Slice) and (e.lower is None or U(e.lower) == '0') and e.upper is not None):
            probs.append('position %d: `%s` is not 0:<real extent>' % (j, U(e)))
            continue
        up = U(e.upper)
        if 'padded' in up or 'blockshape' in up or 'shape_pad' in up:
            probs.append('position %d: bound `%s` is a padded extent: padding samples are hashed' % (j, up))
            continue
        want_ax = (('IL', 'XL', 'Z') if ndim == 3 else ('XL', 'Z'))[j + axis_offset]
        ax = axis_of_text(up)
        if ax in ('IL', 'XL', 'Z') and ax != want_ax:
            probs.append('position %d (%s axis) is bounded by `%s`, a %s extent' % (j, want_ax, up, ax))
    if not grouped_ok and not probs:
        probs.append('the grouped axis is not limited to the real items of the group')
    # inside the group loop, before the put(s) of the group
    inside = pr.group_loop is not None and any(u is x for x in ast.walk(pr.group_loop))
    if not inside:
        probs.append('the update is outside the group loop')
    fm = FactMap(f.node)
    for c in pr.puts:
        if not happened_before(fm, u, c) and loopvar is None:
            probs.append('a put (line %d) is not preceded by the hash update of the same group' % c.lineno)
            break
    if loopvar is not None and pr.puts:
        # the per-item loop as a whole precedes the puts
        from ..iorules import precedes_in_block
        if not all(precedes_in_block(lp, c) for c in pr.puts):
            probs.append('the hashing loop does not precede the puts of the group')
    if probs:
        ctx.fail('C20.1', f, enclosing_stmt(u), 'hash region `%s`: %s' % (U(sub)[:60], '; '.join(probs)), line=u.lineno)
    else:
        ctx.ok('C20.1', f, u, 'hashes exactly the real samples of the group (%s), inside the group loop, before the put' % gname)
    if copied:
        ctx.ok('C20.3', f, arg, '.copy() of a buffer slice (C-contiguous)')
    else:
        ctx.fail('C20.3', f, enclosing_stmt(u), 'the hashed object is a non-contiguous view (no .copy()): hashlib rejects or '
                 'hashes other bytes than the samples in trace order', line=u.lineno)


def algorithm(ctx, pl):
    P, G = ctx.P, ctx.G
    news = []
    for f in P.functions.values():
        for c in PR.calls_in(f.node):
            if U(c.func).startswith('hashlib.'):
                news.append((f, c))
    # a fresh hash object per conversion: created inside the function that drives one conversion (or inside a run()
    # body), never in a constructor / kept on an object that can run several conversions
    stale = [(f_, c_) for (f_, c_) in news if f_.name == '__init__' or isinstance(enclosing_stmt(c_), ast.Assign) and
             U(enclosing_stmt(c_).targets[0]).startswith('self.')]
    for (f_, c_) in stale:
        ctx.fail('C20.2', f_, enclosing_stmt(c_), 'the running hash object is created in %s and kept on the object: a second run() of '
                 'the same converter continues the first run\'s hash state, so every file after the first stores the hash of '
                 'the concatenated inputs' % f_.qualname, line=c_.lineno)
    if stale:
        return
    if len(news) != 1:
        ctx.fail('C20.2', pl.main, pl.main.name, '%d hash objects are created (must be one per conversion)' % len(news))
        return
    f, c = news[0]
    if f is not pl.main and f.name != 'run':
        raise AnalysisError('the hash object is created in %s: not understood' % f.qualname)
    alg = c.args[0].value if U(c.func) == 'hashlib.new' and c.args and isinstance(c.args[0], ast.Constant) else \
        U(c.func).split('.')[-1]
    if alg != 'sha1':
        ctx.fail('C20.2', f, enclosing_stmt(c), 'the hash algorithm is %s, the format stores a 20-byte SHA-1' % alg, line=c.lineno)
    else:
        ctx.ok('C20.2', f, c, 'sha1')
    hname = U(enclosing_stmt(c).targets[0]) if isinstance(enclosing_stmt(c), ast.Assign) else None
    rets = [r for r in ast.walk(f.node) if isinstance(r, ast.Return)]
    if hname and rets and all(U(r.value) == '%s.digest()' % hname for r in rets):
        ctx.ok('C20.2', f, rets[0], 'the conversion loop returns the digest of that object')
    else:
        ctx.fail('C20.2', f, rets[0] if rets else f.name, 'the conversion loop does not return %s.digest()' % hname)
    # every producer receives that object
    for (e, qp) in pl.producers:
        if any(U(v) == hname for v in e.binding.values()):
            ctx.ok('C20.2', f, e.call, 'producer %s updates the same object' % e.target.name)
        else:
            ctx.fail('C20.2', f, enclosing_stmt(e.call), 'producer %s does not receive the hash object' % e.target.name,
                     line=e.call.lineno)
    ht = HR.HeaderTable(P, G)
    rows = [r for r in ht.rows if TB.role_of_row(r) == ('HASH', None)]
    if not rows:
        raise AnalysisError('no hash row in the specification')
    row = rows[0]
    pats = [s for s in ht.patches if s.func.name == 'write_hash']
    if len(pats) < 2:
        raise AnalysisError('expected write_hash in both converters, found %d' % len(pats))
    for s in pats:
        if s.lo == row.lo:
            ctx.ok('C20.2', s.func, s.stmt, 'digest written at byte %d' % row.lo)
        else:
            ctx.fail('C20.2', s.func, s.stmt, 'the digest is written at byte %d, the specification and the reader use %d:%d' % (
                s.lo, row.lo, row.hi))
    # callers pass the loop's return value
    for e in G.callers(pl.main):
        c = e.caller
        st = enclosing_stmt(e.call)
        rv = U(st.targets[0]) if isinstance(st, ast.Assign) else None
        whs = [x for x in G.callees(c) if x.target is not None and x.target.name == 'write_hash']
        if rv and whs and all(any(U(v) == rv for v in x.binding.values()) for x in whs):
            ctx.ok('C20.2', c, whs[0].call, 'write_hash receives the digest returned by the conversion loop')
        else:
            ctx.fail('C20.2', c, st, 'write_hash is not called with the digest returned by the conversion loop')
    lds = [s for s in ht.loads if s.lo < row.hi and row.lo < s.hi]
    for s in lds:
        if (s.lo, s.hi) == (row.lo, row.hi) and row.hi - row.lo == 20:
            ctx.ok('C20.2', s.func, s.stmt, 'reader exposes bytes %d:%d (20 = sha1 digest size)' % (s.lo, s.hi))
        else:
            ctx.fail('C20.2', s.func, s.stmt, 'the reader takes the hash from bytes %d:%d, the slot is %d:%d' % (s.lo, s.hi, row.lo, row.hi))
    if not lds:
        ctx.fail('C20.2', None, 'get_source_data_hash', 'the reader no longer exposes the hash slot')
    ctx.floor('C20.2', 8)


def carried(ctx):
    P, G = ctx.P, ctx.G
    f = P.func('conversion.SgzConverter.convert_to_adv_sgz')
    bufs = TB.header_buffers(P, f)
    copies = [n for n, k in bufs.items() if k == 'copy']
    if not copies:
        ctx.fail('C20.4', f, f.name, 'the re-blocker does not start from a copy of the source header: the hash is not carried')
        return
    ht = HR.HeaderTable(P, G)
    over = [s for s in ht.stores if s.func is f and s.lo < 980 and 960 < s.hi]
    writes = [c for c in PR.calls_in(f.node) if isinstance(c.func, ast.Attribute) and c.func.attr == 'write' and c.args
              and U(c.args[0]) in copies]
    if over:
        ctx.fail('C20.4', f, over[0].stmt, 'the re-blocker overwrites bytes %d:%d, which overlap the hash slot' % (over[0].lo, over[0].hi))
    elif not writes:
        ctx.fail('C20.4', f, f.name, 'the copied header is never written to the output')
    else:
        ctx.ok('C20.4', f, writes[0], 'copy of the source header written with bytes 960:980 untouched')
