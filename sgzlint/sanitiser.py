"""Exactness of the coordinate -> ordinal translation (C02.5 / C14.4).

C02 and C14 treat ``coord_to_index`` as the one sanitiser through which line numbers and sample coordinates become
ordinals: a coordinate that is on the axis maps to its own ordinal, any other coordinate raises IndexError (the
``include_stop`` form additionally maps the one-past-the-end coordinate to len).  That is only sound when the
function matches by *exact equality*.  This rule decides, from the body of the function, that

* every returned ordinal comes from an exact-equality search of the axis (``where/nonzero/flatnonzero(coords == coord)``
  subscripted, or an ordinal dominated by the fact ``coords[i] == coord``), or is ``len(coords)`` under the
  include-stop flag and an exact-equality test of the extrapolated stop coordinate;
* no returned ordinal depends on a tolerance / nearest-neighbour construct (isclose, argmin, abs, round,
  searchsorted, ...);
* the not-found path raises IndexError.

Anything outside these idioms is an analysis error (exit 2), not a finding.
"""
import ast
from .core import U, AnalysisError, enclosing_stmt
from .facts import FactMap
from .footer import _def_chain

APPROX = {'isclose', 'allclose', 'argmin', 'abs', 'absolute', 'fabs', 'round', 'round_', 'rint', 'around', 'searchsorted',
          'floor', 'ceil', 'trunc', 'digitize', 'argmax', 'argsort', 'interp', 'bisect', 'bisect_left', 'bisect_right'}
SEARCH = {'where', 'nonzero', 'flatnonzero', 'argwhere'}


def _is_exact_eq(test, a, b):
    return isinstance(test, ast.Compare) and len(test.ops) == 1 and isinstance(test.ops[0], ast.Eq) and \
        {U(test.left), U(test.comparators[0])} == {a, b}


def _calls(nodes):
    out = []
    for x in nodes:
        for c in ast.walk(x):
            if isinstance(c, ast.Call):
                out.append(c)
    return out


def check(ctx, rule):
    P = ctx.P
    f = P.functions.get('utils.coord_to_index')
    if f is None or len(f.params) < 2:
        raise AnalysisError('the coordinate sanitiser utils.coord_to_index(coord, coords, ..) was not found')
    coord, coords = f.params[0], f.params[1]
    fm = FactMap(f.node)
    rets = [r for r in ast.walk(f.node) if isinstance(r, ast.Return) and r.value is not None]
    if not rets:
        raise AnalysisError('coord_to_index returns nothing')
    n_exact = 0
    for r in rets:
        v = r.value
        chain = _def_chain(f, v)
        calls = _calls(chain)
        names = {U(c.func).split('.')[-1] for c in calls}
        # (b) len(coords): the include_stop form
        if isinstance(v, ast.Call) and U(v.func) == 'len' and v.args and U(v.args[0]) == coords:
            # what holds on every path reaching this return (nested ifs, guard clauses and De Morgan forms alike)
            paths = fm.paths_at(r) or []
            okp = bool(paths)
            conj = []
            for facts in paths:
                flag = any(a[0] == 'T' and a[1] in f.params[2:] for a in facts)
                eqs = [a for a in facts if a[0] == '==' and coord in (a[1], a[2])]
                stop_eq = [a for a in eqs if (coords + '[-1]') in (a[2] if a[1] == coord else a[1])]
                approx = [a for a in facts if a[0] in ('T', 'F', '<', '<=', '>', '>=') and
                          any(k + '(' in ' '.join(str(x) for x in a[1:]) for k in APPROX)]
                conj = sorted(' '.join(str(x) for x in a) for a in facts if a[0] in ('T', 'F', '==', '!=', '<', '<=', '>', '>='))
                if not (flag and stop_eq and not approx):
                    okp = False
                    break
            if okp:
                ctx.ok(rule, f, r, 'len(%s) only for the exact one-past-the-end coordinate under the include-stop flag' % coords)
                continue
            conj = [ast.parse('x', mode='eval').body] if False else conj
            ctx.fail(rule, f, r, 'coord_to_index returns len(%s) under `%s`: the one-past-the-end ordinal must require the '
                     'include-stop flag and exact equality with the extrapolated stop coordinate' % (
                         coords, ' and '.join(str(t) for t in conj)[:100]))
            continue
        # (a) exact-equality search
        searches = [c for c in calls if U(c.func).split('.')[-1] in SEARCH]
        bad_approx = sorted(names & APPROX)
        if searches and not bad_approx:
            s = searches[0]
            arg = s.args[0] if s.args else None
            if arg is not None and _is_exact_eq(arg, coord, coords):
                n_exact += 1
                ctx.ok(rule, f, r, 'ordinal comes from %s(%s == %s): exact match, IndexError when absent' % (
                    U(s.func), coords, coord))
                continue
            ctx.fail(rule, f, enclosing_stmt(s), 'the ordinal is searched with `%s`, which is not exact equality of the '
                     'coordinate with an axis entry: neighbouring or off-axis coordinates resolve to a stored line' % (
                         U(arg)[:70] if arg is not None else U(s)[:70]), line=s.lineno)
            continue
        if bad_approx:
            # dominated by an exact-equality fact on the returned ordinal?
            facts = fm.facts_at(r) or frozenset()
            rv = U(v)
            dominated = any(a[0] == '==' and {a[1], a[2]} == {'%s[%s]' % (coords, rv), coord} for a in facts)
            if dominated:
                n_exact += 1
                ctx.ok(rule, f, r, 'ordinal found by %s but returned only under %s[%s] == %s' % (bad_approx, coords, rv, coord))
            else:
                site = [c for c in calls if U(c.func).split('.')[-1] in APPROX][0]
                ctx.fail(rule, f, enclosing_stmt(r), 'coord_to_index returns `%s`, an ordinal obtained through %s (%s) and not '
                         'established by exact equality with the axis entry: a coordinate that is absent from the axis '
                         'resolves to a neighbouring stored line instead of raising IndexError' % (
                             rv[:40], ', '.join(bad_approx), U(site)[:60]), line=r.lineno)
            continue
        raise AnalysisError('coord_to_index: the returned ordinal `%s` follows no recognised idiom' % U(v)[:60])
    if n_exact < 1:
        raise AnalysisError('coord_to_index has no exact-match return')
    # the not-found path ends in IndexError
    raises = [n for n in ast.walk(f.node) if isinstance(n, ast.Raise)]
    implicit = any(isinstance(n, ast.Subscript) for r in rets for e in _def_chain(f, r.value) for n in ast.walk(e))
    handlers = [h for n in ast.walk(f.node) if isinstance(n, ast.Try) for h in n.handlers]
    swallowing = [h for h in handlers if not any(isinstance(x, ast.Raise) for s in h.body for x in ast.walk(s))]
    if swallowing:
        ctx.fail(rule, f, swallowing[0], 'a handler in coord_to_index ends without raising: an absent coordinate does not '
                 'produce IndexError')
    elif raises and all(r_.exc is None or 'IndexError' in U(r_.exc) for r_ in raises):
        ctx.ok(rule, f, raises[0], 'absent coordinate -> IndexError')
    elif not raises and implicit:
        ctx.ok(rule, f, f.name, 'absent coordinate -> IndexError from the empty match subscript', nontrivial=False)
    else:
        ctx.fail(rule, f, f.name, 'an absent coordinate does not end in IndexError (%s)' % ', '.join(
            U(r_.exc)[:30] for r_ in raises if r_.exc is not None))
