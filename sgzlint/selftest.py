"""Checker self-test (thorough tier).

For the property being checked, a table of single-edit *variants of the current tree* is materialised in a scratch
directory outside /repo and /verif, and the property's quick rules are run on each variant in a separate process:

* kind 'F' (firing): a realistic edit that breaks a structural clause - the check must report a NEW finding (one whose
  key is not among the findings of the unedited tree) under the expected rule, naming the expected function;
* kind 'S' (silent): a behaviour-preserving edit (rename, hoisted sub-expression, reordered commutative operands,
  constant for literal, split comparison, ...) - the check must exit 0 and report nothing new.

Variants whose edit site does not exist in the current tree (because /repo has been changed) are skipped and counted.
A failing self-test means *the checker* is broken: it becomes ANALYSIS-ERROR / exit 2, never a property verdict.
Nothing of the package under analysis is executed: the variants are only parsed by the same static rules.
"""
import json
import os
import shutil
import subprocess
import sys
import tempfile
from concurrent.futures import ThreadPoolExecutor

from .core import AnalysisError, VERIF, PKG
from .mutate import apply_edit, EditError


class V:
    def __init__(self, kind, name, edits, expect=None, where=None, note='', patch=None):
        """edits: list of (file, scope, old, new[, occurrence]); expect: rule id prefix(es) for kind F;
        where: substring that must occur in the function / construct / message of the new finding."""
        self.kind = kind
        self.name = name
        self.edits = edits if isinstance(edits, list) else [edits]
        self.expect = [expect] if isinstance(expect, str) else list(expect or [])
        self.where = where
        self.note = note
        self.patch = patch       # path of a unified diff (seeded change) applied instead of AST edits


def F(name, file, scope, old, new, expect, where=None, occ=0, note=''):
    return V('F', name, [(file, scope, old, new, occ)], expect, where, note)


def S(name, file, scope, old, new, occ=0, note=''):
    return V('S', name, [(file, scope, old, new, occ)], None, None, note)


def F2(name, edits, expect, where=None, note=''):
    return V('F', name, edits, expect, where, note)


def S2(name, edits, note=''):
    return V('S', name, edits, None, None, note)


def _materialise(repo, dest, v):
    os.makedirs(dest)
    shutil.copytree(os.path.join(repo, PKG), os.path.join(dest, PKG),
                    ignore=shutil.ignore_patterns('__pycache__', '*.pyc'))
    if os.path.isdir(os.path.join(repo, 'docs')):
        shutil.copytree(os.path.join(repo, 'docs'), os.path.join(dest, 'docs'))
    if v.patch:
        r = subprocess.run(['git', 'apply', '--whitespace=nowarn', v.patch], cwd=dest, capture_output=True, text=True)
        if r.returncode != 0:
            raise EditError('seeded patch does not apply to the current tree: %s' % r.stderr.strip()[:120])
        return
    for e in v.edits:
        file, scope, old, new = e[:4]
        occ = e[4] if len(e) > 4 else 0
        p = os.path.join(dest, PKG, file) if not file.startswith('docs/') else os.path.join(dest, file)
        with open(p, encoding='utf-8') as fh:
            src = fh.read()
        if file.startswith('docs/'):
            if old not in src:
                raise EditError('text not found in %s' % file)
            out = src.replace(old, new, 1)
        else:
            out = apply_edit(src, scope, old, new, occ)
        with open(p, 'w', encoding='utf-8') as fh:
            fh.write(out)


def _run_variant(prop, d):
    env = dict(os.environ, SGZ_REPO=d, SGZ_EVIDENCE_DIR=os.path.join(d, 'ev'), PYTHONPATH=VERIF,
               PYTHONDONTWRITEBYTECODE='1', VERIF_TIER='quick')
    r = subprocess.run([sys.executable, '-m', 'sgzlint', prop, '--tier', 'quick'], cwd=VERIF, env=env,
                       capture_output=True, text=True, timeout=600)
    finds = []
    rd = os.path.join(d, 'ev', 'replay')
    if os.path.isdir(rd):
        for fn in sorted(os.listdir(rd)):
            with open(os.path.join(rd, fn)) as fh:
                finds.append(json.load(fh))
    err = [l for l in r.stdout.splitlines() if l.startswith('ANALYSIS-ERROR')]
    return r.returncode, finds, err, r.stdout[-1500:] + r.stderr[-1500:]


def run_variants(prop, variants, repo, base_keys, jobs=16, keep=None):
    scratch = tempfile.mkdtemp(prefix='sgzlint-selftest-')
    results = []
    try:
        todo = []
        for i, v in enumerate(variants):
            d = os.path.join(scratch, 'v%03d' % i)
            try:
                _materialise(repo, d, v)
            except EditError as e:
                results.append({'variant': v.name, 'kind': v.kind, 'outcome': 'skipped', 'why': str(e)})
                shutil.rmtree(d, ignore_errors=True)
                continue
            todo.append((v, d))
        with ThreadPoolExecutor(max_workers=jobs) as ex:
            futs = [(v, d, ex.submit(_run_variant, prop, d)) for v, d in todo]
            for v, d, fu in futs:
                rc, finds, err, tail = fu.result()
                new = [f for f in finds if f['key'] not in base_keys]
                rec = {'variant': v.name, 'kind': v.kind, 'rc': rc,
                       'new_findings': [{'rule': f['rule'], 'function': f['function'], 'construct': f['construct'][:100],
                                         'message': f['message'][:160]} for f in new][:4]}
                if v.kind == 'F':
                    hit = [f for f in new if any(f['rule'] == x or f['rule'].startswith(x + '.') or f['rule'].startswith(x)
                                                 for x in v.expect)]
                    if v.where:
                        hit = [f for f in hit if v.where in (f['function'] + ' ' + f['construct'] + ' ' + f['message'])]
                    if rc == 1 and hit:
                        rec['outcome'] = 'fired'
                    else:
                        rec['outcome'] = 'MISSED'
                        rec['why'] = 'rc=%d, expected a new finding under %s%s; %s' % (
                            rc, v.expect, (' naming ' + v.where) if v.where else '', (err or [tail[-300:]])[0][:300])
                else:
                    if rc == 0 and not new:
                        rec['outcome'] = 'silent'
                    elif rc == 2 and not new and v.patch and '/benign/' in v.patch:
                        # a whole-module refactoring the rules could not follow: "cannot be decided" (exit 2) is not an
                        # alarm - it is recorded, and it is not a verdict either way
                        rec['outcome'] = 'undecided'
                        rec['why'] = 'rc=2 (analysis error, no finding) on a behaviour-preserving refactoring; %s' % (err or [''])[0][:300]
                    else:
                        rec['outcome'] = 'NOISY'
                        rec['why'] = 'rc=%d on a behaviour-preserving edit; %s' % (rc, (err or [''])[0][:300])
                results.append(rec)
    finally:
        shutil.rmtree(scratch, ignore_errors=True)
    return results


def seeded_variants(prop):
    """the confirmed seeded changes kept under /verif/seeded whose meta.json names this property: each must fire."""
    out = []
    root = os.path.join(VERIF, 'seeded')
    if not os.path.isdir(root):
        return out
    for d in sorted(os.listdir(root)):
        mp, pp = os.path.join(root, d, 'meta.json'), os.path.join(root, d, 'patch.diff')
        if not (os.path.exists(mp) and os.path.exists(pp)):
            continue
        try:
            with open(mp) as fh:
                meta = json.load(fh)
        except ValueError:
            continue
        if meta.get('property') == prop or prop in meta.get('also_detected_by', []):
            out.append(V('F', 'seeded/%s' % d, [], expect=[prop], patch=pp, note=(meta.get('summary') or '')[:120]))
    return out


def benign_variants(prop):
    """the confirmed behaviour-preserving refactorings kept under /verif/benign: every check must stay silent on each."""
    out = []
    root = os.path.join(VERIF, 'benign')
    if not os.path.isdir(root):
        return out
    for d in sorted(os.listdir(root)):
        pp = os.path.join(root, d, 'patch.diff')
        if os.path.exists(pp):
            out.append(V('S', 'benign/%s' % d, [], expect=[], patch=pp, note='behaviour-preserving refactoring of %s' % d))
    return out


def load_variants(prop):
    import importlib
    try:
        mod = importlib.import_module('sgzlint.variants.' + prop.lower())
        vs = list(mod.VARIANTS)
    except ModuleNotFoundError:
        vs = []
    return vs + seeded_variants(prop) + benign_variants(prop)


def run(ctx):
    """thorough tier: run the self-test for ctx.prop; results go into the evidence; failure raises AnalysisError."""
    variants = load_variants(ctx.prop)
    base_keys = {f.key for f in ctx.findings}
    res = run_variants(ctx.prop, variants, ctx.P.repo, base_keys)
    bad = [r for r in res if r['outcome'] in ('MISSED', 'NOISY')]
    summary = {
        'variants': len(variants),
        'fired': sum(r['outcome'] == 'fired' for r in res),
        'silent': sum(r['outcome'] == 'silent' for r in res),
        'skipped': sum(r['outcome'] == 'skipped' for r in res),
        'undecided': sum(r['outcome'] == 'undecided' for r in res),
        'failed': len(bad),
        'results': res,
    }
    ctx.selftest = summary
    print('%s self-test: %d variants: %d fired, %d silent, %d undecided (refactoring not followed, exit 2), %d skipped (site absent), '
          '%d failed' % (ctx.prop, summary['variants'], summary['fired'], summary['silent'], summary['undecided'],
                         summary['skipped'], summary['failed']))
    for r in res:
        if r['outcome'] in ('MISSED', 'NOISY', 'skipped', 'undecided'):
            print('  self-test %s %s [%s]: %s' % (r['outcome'], r['variant'], r['kind'], r.get('why', '')))
    if bad:
        raise AnalysisError('checker self-test failed on %d variant(s): %s' % (
            len(bad), ', '.join(r['variant'] for r in bad)[:300]))
    # a self-test in which nothing could be applied proves nothing
    if variants and summary['fired'] + summary['silent'] == 0:
        raise AnalysisError('checker self-test: none of the %d variants could be applied to this tree' % len(variants))
