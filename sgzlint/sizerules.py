"""L5 - sibling formulas over the header: data-section size, header-array length, footer stride.

Expressions are normalised with *role atoms*: every sub-expression that carries a definite
(kind, axis) tag becomes the atom of that tag, ``pad(a, m)`` becomes PAD[axis] (after checking
AT3: axis(a) == axis(m)), so that formulas written with different local names in different
writers compare equal exactly when they denote the same quantity.
"""
import ast
from fractions import Fraction
from .core import U, AnalysisError, parent
from .algebra import Poly, Atoms, C, A
from .axes import role_of, axis_of_text, _strip


class RoleEval:
    def __init__(self, P, module, resolve, extra=None):
        self.P, self.module, self.resolve = P, module, resolve
        self.T = Atoms()
        self.T.rational_const_div = True
        self.problems = []
        self.extra = extra or {}

    def atom(self, name):
        if not self.T.has(name):
            self.T.declare(name, 0, None, kind='extent')
        return A(name)

    def ev(self, e, depth=0):
        e0 = e
        e = _strip(e)
        if depth > 12:
            return None
        if isinstance(e, ast.Constant) and isinstance(e.value, (int, float)) and not isinstance(e.value, bool):
            return C(Fraction(e.value))
        txt = U(e)
        if txt in self.extra:
            return self.extra[txt]
        if isinstance(e, ast.Call) and U(e.func).split('.')[-1] == 'pad' and len(e.args) == 2:
            ra, rm = role_of(e.args[0], self.resolve), role_of(e.args[1], self.resolve)
            if ra is None:
                # count expressed by a difference of range ends etc.: use its own normal form
                inner = self.ev(e.args[0], depth + 1)
                ax = rm[1] if rm else None
                if inner is None or ax is None:
                    return None
                return self.atom('PAD[%s|%r]' % (ax, inner))
            if rm is None or rm[0] != 'BLOCKSHAPE':
                return None
            if ra[1] != rm[1] and not (ra[1] == 'TRACE' and rm[1] == 'XL'):
                self.problems.append('pad(%s, %s): a %s count is padded to the blockshape of the %s axis' % (
                    U(e.args[0]), U(e.args[1]), ra[1], rm[1]))
            return self.atom('PAD[%s]' % ra[1])
        if isinstance(e, ast.Subscript) and isinstance(e.value, ast.Name) and isinstance(e.slice, ast.Constant) \
                and self.resolve is not None:
            d = self.resolve(e.value.id)
            if isinstance(d, (ast.Tuple, ast.List)) and isinstance(e.slice.value, int) and \
                    -len(d.elts) <= e.slice.value < len(d.elts):
                return self.ev(d.elts[e.slice.value], depth + 1)
        if isinstance(e, ast.Name) and self.resolve is not None:
            # a named local means what its definition means; the name's own tag is the fall-back
            d = self.resolve(e.id)
            if d is not None and not (isinstance(d, ast.Name) and d.id == e.id):
                v = self.ev(d, depth + 1)
                if v is not None:
                    return v
        r = role_of(e, self.resolve) if not isinstance(e, (ast.BinOp, ast.IfExp)) else None
        if r is None and isinstance(e, ast.BinOp) and isinstance(e.op, ast.Sub):
            r0 = role_of(e, self.resolve)
            if r0 is not None and r0[0] == 'COUNT':
                r = r0
        if r is not None and r[0] in ('COUNT', 'RATE', 'BLOCKSHAPE'):
            return self.atom('%s[%s]' % (r[0], r[1]))
        if isinstance(e, ast.Name):
            d = self.resolve(e.id) if self.resolve else None
            if d is not None:
                return self.ev(d, depth + 1)
            v = self.P.const_value(self.module, e.id)
            if isinstance(v, (int, float)) and not isinstance(v, bool):
                return C(Fraction(v))
            return None
        if isinstance(e, ast.Attribute):
            v = self.P.const_value(self.module, U(e))
            if isinstance(v, (int, float)) and not isinstance(v, bool):
                return C(Fraction(v))
            return None
        if isinstance(e, ast.BinOp):
            l, r_ = self.ev(e.left, depth + 1), self.ev(e.right, depth + 1)
            if l is None or r_ is None:
                return None
            if isinstance(e.op, ast.Add):
                return l + r_
            if isinstance(e.op, ast.Sub):
                return l - r_
            if isinstance(e.op, ast.Mult):
                return l * r_
            if isinstance(e.op, (ast.FloorDiv, ast.Div)):
                return self.T.floordiv(l, r_)
            return None
        if isinstance(e, ast.Subscript):
            # range tuples of the cropper: x_range[1] - x_range[0] handled by BinOp; single element -> atom
            return self.atom('ELT[%s]' % txt)
        return None


def expand_variants(f, expr, reachable=None, depth=0, cap=8):
    """the expressions ``expr`` can stand for: every local name in it that is defined by plain assignments is replaced
    by each of its (reachable) definitions - one variant per combination, so a value chosen in the arms of an `if`
    yields one formula per arm.  Parameters, loop variables and augmented locals are left alone."""
    import copy
    import itertools
    if depth > 3:
        return [expr]
    names = []
    for x in ast.walk(expr):
        if isinstance(x, ast.Name) and isinstance(x.ctx, ast.Load) and x.id not in f.params and x.id not in names:
            defs = [n for n in ast.walk(f.node) if isinstance(n, ast.Assign) and len(n.targets) == 1 and
                    isinstance(n.targets[0], ast.Name) and n.targets[0].id == x.id and (reachable is None or reachable(n))]
            others = [n for n in ast.walk(f.node) if isinstance(n, (ast.AugAssign, ast.For, ast.comprehension)) and
                      any(isinstance(y, ast.Name) and y.id == x.id for y in ast.walk(n.target))]
            multi = [n for n in ast.walk(f.node) if isinstance(n, ast.Assign) and any(
                isinstance(t, ast.Tuple) and any(isinstance(y, ast.Name) and y.id == x.id for y in t.elts) for t in n.targets)]
            if defs and not others and not multi and not any(
                    isinstance(y, ast.Name) and y.id == x.id for d in defs for y in ast.walk(d.value)):
                names.append(x.id)
                names_defs = getattr(expand_variants, '_tmp', None)
    if not names:
        return [expr]
    choices = []
    for nm in names:
        defs = [n.value for n in ast.walk(f.node) if isinstance(n, ast.Assign) and len(n.targets) == 1 and
                isinstance(n.targets[0], ast.Name) and n.targets[0].id == nm and (reachable is None or reachable(n))]
        choices.append(defs)
    out = []
    for combo in itertools.islice(itertools.product(*choices), cap):
        m = dict(zip(names, combo))

        class S(ast.NodeTransformer):
            def visit_Name(self, n):
                if isinstance(n.ctx, ast.Load) and n.id in m:
                    return copy.deepcopy(m[n.id])
                return n
        e2 = S().visit(copy.deepcopy(expr))
        ast.fix_missing_locations(e2)
        out.extend(expand_variants(f, e2, reachable, depth + 1, cap))
    return out[:cap * 2]
