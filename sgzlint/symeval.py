"""Symbolic evaluation of package code over the index algebra (E4).

A small abstract interpreter: integer expressions evaluate to ``Poly`` normal forms,
byte buffers / numpy arrays to allocation records, and every range read, buffer store,
decode call and crop subscript is recorded as an *event* with the loop context and the
path it occurred on.  Control flow forks where a condition is not decided by the layout
mode; nothing is executed and no concrete value is ever enumerated.
"""
import ast
from fractions import Fraction
from .core import U, AnalysisError, FuncInfo, ClassInfo
from .algebra import Poly, Atoms, C, A

AXIS_NAMES = ('IL', 'XL', 'Z')


class Tup:
    def __init__(self, elts):
        self.elts = list(elts)

    def __repr__(self):
        return '(%s)' % ', '.join(repr(e) for e in self.elts)


class Axis:
    """an axis list of the reader (ilines / xlines / zslices): only its length is modelled."""

    def __init__(self, k, length):
        self.k, self.length = k, length

    def __repr__(self):
        return 'axis%d' % self.k


class Opaque:
    def __init__(self, text):
        self.text = text

    def __repr__(self):
        return '?<%s>' % self.text[:60]


class Buf:
    """bytearray allocation"""
    n = 0

    def __init__(self, length, site):
        Buf.n += 1
        self.id = Buf.n
        self.length = length
        self.site = site

    def __repr__(self):
        return 'buf#%d[%r]' % (self.id, self.length)


class BufSlice:
    def __init__(self, buf, lo, hi):
        self.buf, self.lo, self.hi = buf, lo, hi

    @property
    def length(self):
        return self.hi - self.lo

    def __repr__(self):
        return '%r[%r:%r]' % (self.buf, self.lo, self.hi)


class Bytes:
    """result of a range read"""

    def __init__(self, offset, length, site):
        self.offset, self.length, self.site = offset, length, site

    def __repr__(self):
        return 'bytes@%r+%r' % (self.offset, self.length)


class Arr:
    n = 0

    def __init__(self, shape, kind, site, src=None, call=None):
        Arr.n += 1
        self.id = Arr.n
        self.shape = shape      # list of Poly or None
        self.kind = kind        # zeros | decoded
        self.site = site
        self.src = src
        self.call = call        # (callee qualname, binding polys) for arrays returned by loader calls

    def __repr__(self):
        return 'arr#%d%r' % (self.id, self.shape)


class ArrView:
    def __init__(self, arr, index):
        self.arr, self.index = arr, index

    def __repr__(self):
        return '%r%r' % (self.arr, self.index)


class SliceV:
    def __init__(self, lo, hi, step=None):
        self.lo, self.hi, self.step = lo, hi, step

    def __repr__(self):
        return '%r:%r' % (self.lo, self.hi)


class FuncVal:
    def __init__(self, targets, selfobj=None, text=''):
        self.targets = targets   # list of (FuncInfo, skip_self)
        self.selfobj = selfobj
        self.text = text
        self.bound_args = []     # functools.partial: values bound in front (as pre-evaluated pseudo nodes)
        self.bound_kw = []       # ... and by keyword


class _Pre:
    """an already evaluated value travelling as an argument node (functools.partial)"""

    def __init__(self, value):
        self.value = value


class Obj:
    def __init__(self, cls, attrs=None, name=''):
        self.cls = cls
        self.attrs = attrs if attrs is not None else {}
        self.name = name
        self.init_env = None     # (FuncInfo of __init__, env) for lazy attribute evaluation
        self.evaluating = set()

    def __repr__(self):
        return '<obj %s>' % self.cls.name


class Event:
    def __init__(self, kind, func, node, loops, stack, **kw):
        self.kind = kind
        self.func = func
        self.node = node
        self.loops = list(loops)
        self.stack = list(stack)
        self.__dict__.update(kw)

    def __repr__(self):
        d = {k: v for k, v in self.__dict__.items() if k not in ('kind', 'func', 'node', 'loops', 'stack')}
        return '<%s %s L%s %r loops=%s>' % (self.kind, self.func.qualname if self.func else '', getattr(self.node, 'lineno', '?'),
                                           d, [l.name for l in self.loops])


class Loop:
    def __init__(self, name, count, node):
        self.name, self.count, self.node = name, count, node


class State:
    def __init__(self, env, events=None, conds=None):
        self.env = env
        self.events = events if events is not None else []
        self.conds = conds if conds is not None else []

    def fork(self):
        return State(dict(self.env), list(self.events), list(self.conds))


def _as_conditional_assign(s):
    if len(s.body) != 1 or len(s.orelse) > 1:
        return None
    a = s.body[0]
    if not (isinstance(a, ast.Assign) and len(a.targets) == 1 and isinstance(a.targets[0], ast.Name)):
        return None
    if s.orelse:
        b = s.orelse[0]
        if not (isinstance(b, ast.Assign) and len(b.targets) == 1 and isinstance(b.targets[0], ast.Name) and
                b.targets[0].id == a.targets[0].id):
            return None
        other = b.value
    else:
        other = ast.copy_location(ast.Name(id=a.targets[0].id, ctx=ast.Load()), a)
    if any(isinstance(x, (ast.Call,)) and not isinstance(x.func, ast.Name) for v in (a.value, other) for x in ast.walk(v)):
        # method calls (reads, decodes) stay statements: each branch is explored on its own path
        return None
    new = ast.Assign(targets=[a.targets[0]], value=ast.IfExp(test=s.test, body=a.value, orelse=other))
    ast.copy_location(new, s)
    ast.copy_location(new.value, s)
    new._parent = getattr(s, '_parent', None)
    for n in ast.walk(new):
        for c in ast.iter_child_nodes(n):
            if not hasattr(c, '_parent') or c in (new.value,):
                c._parent = n
    new.value._parent = new
    return new


OPAQUE_BORN = set()


class Outcome:
    def __init__(self, state, kind, value=None, node=None):
        self.state, self.kind, self.value, self.node = state, kind, value, node   # kind: return | raise | fall


class Interp:
    MAX_STATES = 64
    MAX_DEPTH = 8

    def __init__(self, program, graph, atoms, base_attrs, param_axis=None, primitives=None):
        self.P = program
        self.G = graph
        self.T = atoms
        self.base_attrs = base_attrs         # class-qualname -> attr -> value   (seed attributes)
        self.param_axis = param_axis or (lambda name: None)
        self.primitives = primitives or {}
        self.loops = []
        self.stack = []
        self.digits_cache = {}
        self.bs = None   # blockshape polys, set by model for digit radix

    # ------------------------------------------------------------------ digits
    def digit_var(self, name, axis):
        """v = bs_k*v.b + 4*v.u + v.r  (v.u omitted when bs_k == 4; plain atom if no radix is known)."""
        key = (name, axis)
        if key in self.digits_cache:
            return self.digits_cache[key]
        T = self.T
        if axis is None or self.bs is None or axis >= len(self.bs) or self.bs[axis] is None:
            p = T.declare(name, 0, None, kind='param')
            self.digits_cache[key] = p
            return p
        bs = self.bs[axis]
        b = T.exact_div(bs, C(4))
        vb = T.declare(name + '.b', 0, None, kind='digitb', axis=axis, var=name)
        vr = T.declare(name + '.r', 0, 4, kind='digit', axis=axis, var=name)
        if b is None:
            p = T.declare(name, 0, None, kind='param', axis=axis)
        elif b == C(1):
            p = 4 * vb + vr
        else:
            vu = T.declare(name + '.u', 0, b, kind='digit', axis=axis, var=name)
            p = bs * vb + 4 * vu + vr
        self.digits_cache[key] = p
        return p

    # ------------------------------------------------------------------ events
    def emit(self, st, kind, func, node, **kw):
        ev = Event(kind, func, node, self.loops, self.stack, **kw)
        st.events.append(ev)
        return ev

    # ------------------------------------------------------------------ attribute lookup
    def get_attr(self, obj, attr, st, func, node):
        if attr in obj.attrs:
            return obj.attrs[attr]
        seeds = {}
        for c in obj.cls.mro:
            seeds.update({k: v for k, v in self.base_attrs.get(c.qualname, {}).items() if k not in seeds})
        if attr in seeds:
            v = seeds[attr]
            if callable(v):
                v = v(self, obj)
            obj.attrs[attr] = v
            return v
        m = obj.cls.find_method(attr)
        if m is not None:
            return FuncVal([(m, m.is_method)], obj, attr)
        # lazy: unique store in __init__ chain reachable under the object's mode
        if attr in obj.evaluating:
            return Opaque('recursive attr ' + attr)
        stores = self.P.attr_stores_mro(obj.cls, attr)
        init_stores = [(f, stmt, v) for (f, stmt, v) in stores if f.name == '__init__']
        cands = []
        for (f, stmt, v) in init_stores:
            if v is None:
                continue
            env = self.init_env_for(obj, f)
            if env is None:
                continue
            if not self.stmt_live(obj, f, stmt):
                continue
            cands.append((f, stmt, v, env))
        if not cands:
            v = Opaque('%s.%s' % (obj.name or obj.cls.name, attr))
            obj.attrs[attr] = v
            return v
        obj.evaluating.add(attr)
        try:
            vals = []
            for (f, stmt, v, env) in cands:
                tmp = State(dict(env))
                self.stack.append(('attr', f, attr))
                try:
                    # tuple-unpacking stores: evaluate whole value then pick component
                    val = self.eval(v, tmp, f, obj)
                    if isinstance(stmt, ast.Assign) and isinstance(stmt.targets[0], (ast.Tuple, ast.List)) \
                            and not (isinstance(stmt.value, (ast.Tuple, ast.List))):
                        idx = [i for i, t in enumerate(stmt.targets[0].elts) if U(t).endswith('.' + attr)]
                        if idx and isinstance(val, Tup):
                            val = val.elts[idx[0]]
                        elif idx:
                            val = Opaque('%s[%d]' % (U(stmt.value), idx[0]))
                finally:
                    self.stack.pop()
                vals.append(val)
        finally:
            obj.evaluating.discard(attr)
        val = vals[-1] if len(vals) == 1 or all(same(vals[0], x) for x in vals[1:]) else \
            Opaque('%s.%s (several stores)' % (obj.cls.name, attr))
        obj.attrs[attr] = val
        return val

    def init_env_for(self, obj, f):
        envs = getattr(obj, 'init_envs', None)
        if envs is None:
            return {} if not f.params[1:] else None
        return envs.get(f.qualname)

    def stmt_live(self, obj, f, stmt):
        """is the store statement reachable under the object's mode (decided conditions only)?"""
        n = stmt
        from .core import parent
        while True:
            p = parent(n)
            if p is None or p is f.node:
                return True
            if isinstance(p, ast.If):
                tmp = State(dict(self.init_env_for(obj, f) or {}))
                t = self.truth(p.test, tmp, f, obj)
                if t is True and n in p.orelse:
                    return False
                if t is False and n in p.body:
                    return False
            n = p

    # ------------------------------------------------------------------ expressions
    def eval(self, e, st, func, selfobj):
        T = self.T
        if isinstance(e, ast.Constant):
            v = e.value
            if isinstance(v, _Pre):
                return v.value
            if isinstance(v, bool) or v is None:
                return v
            if isinstance(v, int):
                return C(v)
            if isinstance(v, float):
                return C(Fraction(v)) if v == int(v) or abs(v) < 1e6 else Opaque(repr(v))
            return Opaque(repr(v))
        if isinstance(e, ast.Name):
            if e.id in st.env:
                return st.env[e.id]
            if func is not None and func.is_method and func.params and e.id == func.params[0]:
                return selfobj
            r = self.P.resolve_name(func.module, e.id) if func is not None else None
            if isinstance(r, tuple) and r[0] == 'const' and isinstance(r[1], (int, float)) and not isinstance(r[1], bool):
                return C(Fraction(r[1]))
            if isinstance(r, FuncInfo):
                return FuncVal([(r, False)], None, e.id)
            if isinstance(r, ClassInfo):
                return ClassVal(r)
            # a local of the constructor used by a lazily evaluated attribute definition: its (only live) definition
            if func is not None and isinstance(selfobj, Obj) and self.stack and self.stack[-1][0] == 'attr' and \
                    self.stack[-1][1] is func and e.id not in func.params:
                key = (func.qualname, e.id)
                busy = getattr(self, '_local_busy', set())
                if key not in busy:
                    defs = [n for n in ast.walk(func.node) if isinstance(n, ast.Assign) and len(n.targets) == 1 and
                            isinstance(n.targets[0], ast.Name) and n.targets[0].id == e.id]
                    others = [n for n in ast.walk(func.node) if isinstance(n, (ast.AugAssign, ast.For)) and
                              any(isinstance(y, ast.Name) and y.id == e.id for y in ast.walk(n.target))]
                    live = [d for d in defs if self.stmt_live(selfobj, func, d)]
                    if len(live) == 1 and not others:
                        busy.add(key)
                        self._local_busy = busy
                        try:
                            return self.eval(live[0].value, st, func, selfobj)
                        finally:
                            busy.discard(key)
            return Opaque(e.id)
        if isinstance(e, ast.Attribute):
            base = self.eval(e.value, st, func, selfobj)
            if isinstance(base, Obj):
                return self.get_attr(base, e.attr, st, func, e)
            if isinstance(base, Arr) and e.attr == 'shape':
                return Tup(base.shape) if base.shape else Opaque(U(e))
            if isinstance(base, Opaque) and e.attr in getattr(self.G, '_nested_func_stores', {}):
                # function-valued attribute stored on a handle (file.read_range = utils.read_range_file)
                return FuncVal([(t, False) for t in self.G._nested_func_stores[e.attr]], None, U(e))
            r = self.P.resolve_name(func.module, U(e)) if func is not None else None
            if isinstance(r, tuple) and r[0] == 'const' and isinstance(r[1], (int, float)):
                return C(Fraction(r[1]))
            if isinstance(r, FuncInfo):
                return FuncVal([(r, False)], None, U(e))
            return Opaque(U(e))
        if isinstance(e, ast.Tuple) or isinstance(e, ast.List):
            elts = []
            for x in e.elts:
                if isinstance(x, ast.Starred):
                    v = self.eval(x.value, st, func, selfobj)
                    if isinstance(v, Tup):
                        elts.extend(v.elts)       # (a, *t) with t a known tuple
                    else:
                        return Opaque(U(e))       # unknown arity: nothing positional may be concluded
                else:
                    elts.append(self.eval(x, st, func, selfobj))
            multi = [i for i, x in enumerate(elts) if isinstance(x, MultiVal)]
            if multi and len(multi) <= 2:
                # a tuple with a case-split component is a case-split tuple
                import itertools
                vals, conds = [], []
                for combo in itertools.product(*[range(len(elts[i].vals)) for i in multi]):
                    cur = list(elts)
                    cc = []
                    for i, k in zip(multi, combo):
                        cur[i] = elts[i].vals[k]
                        cc.extend(elts[i].conds[k])
                    vals.append(Tup(cur))
                    conds.append(cc)
                return MultiVal(vals, conds)
            return Tup(elts)
        if isinstance(e, ast.UnaryOp):
            v = self.eval(e.operand, st, func, selfobj)
            if isinstance(e.op, ast.USub) and isinstance(v, Poly):
                return -v
            if isinstance(e.op, ast.Not):
                t = self.truth(e.operand, st, func, selfobj)
                return (not t) if t is not None else Opaque(U(e))
            return Opaque(U(e))
        if isinstance(e, ast.BinOp):
            l = self.eval(e.left, st, func, selfobj)
            r = self.eval(e.right, st, func, selfobj)
            if isinstance(l, Poly) and isinstance(r, Poly):
                if isinstance(e.op, ast.Add):
                    return l + r
                if isinstance(e.op, ast.Sub):
                    return l - r
                if isinstance(e.op, ast.Mult):
                    return l * r
                if isinstance(e.op, ast.FloorDiv):
                    return T.floordiv(l, r)
                if isinstance(e.op, ast.Mod):
                    return T.mod(l, r)
                if isinstance(e.op, ast.Div):
                    q = T.exact_div(l, r)
                    if q is not None:
                        return q
                    if r.is_const() and r.const_value() != 0:
                        return l * C(1 / r.const_value())
                    return Opaque(U(e))
                if isinstance(e.op, ast.Pow) and r.is_const() and r.const_value().denominator == 1 and 0 <= r.const_value() <= 4:
                    out = C(1)
                    for _ in range(int(r.const_value())):
                        out = out * l
                    return out
            if isinstance(e.op, ast.Mult) and isinstance(l, Tup) and isinstance(r, Poly) and r.is_const():
                return Tup(l.elts * int(r.const_value()))
            return Opaque(U(e))
        if isinstance(e, ast.Subscript):
            base = self.eval(e.value, st, func, selfobj)
            idx = self.eval_index(e.slice, st, func, selfobj)
            if isinstance(base, Tup):
                if isinstance(idx, Poly) and idx.is_const():
                    i = int(idx.const_value())
                    if -len(base.elts) <= i < len(base.elts):
                        return base.elts[i]
                if isinstance(idx, SliceV):
                    lo = int(idx.lo.const_value()) if isinstance(idx.lo, Poly) and idx.lo.is_const() else (0 if idx.lo is None else None)
                    hi = int(idx.hi.const_value()) if isinstance(idx.hi, Poly) and idx.hi.is_const() else (len(base.elts) if idx.hi is None else None)
                    if lo is not None and hi is not None:
                        return Tup(base.elts[lo:hi])
                return Opaque(U(e))
            if isinstance(base, Buf):
                if isinstance(idx, SliceV) and isinstance(idx.lo, Poly) and isinstance(idx.hi, Poly):
                    return BufSlice(base, idx.lo, idx.hi)
                return Opaque(U(e))
            if isinstance(base, Bytes):
                if isinstance(idx, SliceV) and isinstance(idx.lo, Poly) and isinstance(idx.hi, Poly) and \
                        isinstance(base.offset, Poly):
                    return Bytes(base.offset + idx.lo, idx.hi - idx.lo, base.site)
                return Opaque(U(e))
            if isinstance(base, (Arr, ArrView)):
                v = ArrView(base if isinstance(base, Arr) else base.arr, idx)
                self.emit(st, 'subscript', func, e, arr=v.arr, index=idx, view_of=base)
                return v
            return Opaque(U(e))
        if isinstance(e, ast.Call):
            return self.eval_call(e, st, func, selfobj)
        if isinstance(e, ast.IfExp):
            t = self.truth(e.test, st, func, selfobj)
            if t is True:
                return self.eval(e.body, st, func, selfobj)
            if t is False:
                return self.eval(e.orelse, st, func, selfobj)
            a = self.eval(e.body, st, func, selfobj)
            b = self.eval(e.orelse, st, func, selfobj)
            if same(a, b):
                return a
            ce = self._cond_equal(e.test, a, b, st, func, selfobj)
            if ce is not None:
                return ce
            return Opaque(U(e))
        if isinstance(e, ast.Compare) or isinstance(e, ast.BoolOp):
            t = self.truth(e, st, func, selfobj)
            return t if t is not None else Opaque(U(e))
        if isinstance(e, ast.GeneratorExp) or isinstance(e, ast.ListComp):
            return self.eval_comp(e, st, func, selfobj)
        if isinstance(e, ast.Slice):
            return self.eval_index(e, st, func, selfobj)
        if isinstance(e, ast.JoinedStr):
            return Opaque('fstring')
        return Opaque(U(e))

    def _cond_equal(self, test, a, b, st, func, selfobj):
        """`a if R != 0 else b` with R = X % m (or `== 0` with the branches swapped) as ONE polynomial:
        V = b + c*(a - b) with the canonical carry c = [R >= 1]; since every low digit of X vanishes when R = 0,
        c*digit = digit for the digits of R.  (Idiom of pad() and of the outward alignment of bounds.)"""
        if not (isinstance(a, Poly) and isinstance(b, Poly)):
            return None
        t = test
        if not (isinstance(t, ast.Compare) and len(t.ops) == 1 and isinstance(t.ops[0], (ast.Eq, ast.NotEq)) and
                isinstance(t.left, ast.BinOp) and isinstance(t.left.op, ast.Mod) and U(t.comparators[0]) == '0'):
            return None
        r = self.eval(t.left, st, func, selfobj)
        if not isinstance(r, Poly) or r.is_zero():
            return None
        low = [x for x in r.atoms() if self.T.kind(x) == 'digit']
        if not low or not r.subst({x: Poly() for x in low}).is_zero():
            return None
        if not all(v > 0 for v in r.t.values()):
            return None
        gen, spec = (a, b) if isinstance(t.ops[0], ast.NotEq) else (b, a)
        c = self.T._carry(r - 1)
        cat = [x for x in c.atoms()]
        v = spec + c * (gen - spec)
        # c * digit = digit for the digits of R
        out = {}
        for k, coef in v.t.items():
            names = [x for x, e in k]
            if any(x in cat for x in names) and any(x in low for x in names):
                k = tuple((x, e) for x, e in k if x not in cat)
            out[k] = out.get(k, 0) + coef
        return Poly(out)

    def eval_index(self, s, st, func, selfobj):
        if isinstance(s, ast.Slice):
            lo = self.eval(s.lower, st, func, selfobj) if s.lower is not None else None
            hi = self.eval(s.upper, st, func, selfobj) if s.upper is not None else None
            step = self.eval(s.step, st, func, selfobj) if s.step is not None else None
            return SliceV(lo, hi, step)
        if isinstance(s, ast.Tuple):
            return Tup([self.eval_index(x, st, func, selfobj) for x in s.elts])
        return self.eval(s, st, func, selfobj)

    def eval_comp(self, e, st, func, selfobj):
        # tuple(dim // size for dim, size in zip(a, b))   /   [f(x) for x in tup]
        if len(e.generators) != 1 or e.generators[0].ifs:
            return Opaque(U(e))
        g = e.generators[0]
        rng = self._range_of(g.iter, st, func, selfobj)
        if rng is not None:
            # comprehension over range(..): evaluate the element once with a symbolic loop variable
            lo, count, enum, it_node = rng
            name = '%s@%s.L%d' % (_first_name(g.target), func.name, e.lineno)
            k = self.T.declare(name, 0, count, kind='loop', count=count, start=lo, node=e)
            loop = Loop(name, count, e)
            loop.lo = lo
            sub = State(dict(st.env), st.events, st.conds)
            if enum and isinstance(g.target, (ast.Tuple, ast.List)) and len(g.target.elts) == 2:
                self.assign(g.target.elts[0], k, sub, func, selfobj)
                self.assign(g.target.elts[1], lo + k, sub, func, selfobj)
            else:
                self.assign(g.target, lo + k, sub, func, selfobj)
            self.loops.append(loop)
            try:
                val = self.eval(e.elt, sub, func, selfobj)
            finally:
                self.loops.pop()
            if isinstance(val, Poly) and isinstance(e, ast.ListComp):
                return SeqV(count, name, val, e)
            return Opaque('list over ' + U(g.iter))
        sq = self._seq_of(g.iter, st, func, selfobj)
        if sq is not None:
            seq, enum = sq
            name = '%s@%s.L%d' % (_first_name(g.target), func.name, e.lineno)
            k = self.T.declare(name, 0, seq.count, kind='loop', count=seq.count, start=C(0), node=e)
            loop = Loop(name, seq.count, e)
            loop.lo = C(0)
            item = seq.elt.subst({seq.atom: k})
            sub = State(dict(st.env), st.events, st.conds)
            if enum and isinstance(g.target, (ast.Tuple, ast.List)) and len(g.target.elts) == 2:
                self.assign(g.target.elts[0], k, sub, func, selfobj)
                self.assign(g.target.elts[1], item, sub, func, selfobj)
            else:
                self.assign(g.target, item, sub, func, selfobj)
            self.loops.append(loop)
            try:
                val = self.eval(e.elt, sub, func, selfobj)
            finally:
                self.loops.pop()
            if isinstance(val, Poly) and isinstance(e, ast.ListComp):
                return SeqV(seq.count, name, val, e)
            return Opaque('list over ' + U(g.iter))
        it = self.eval(g.iter, st, func, selfobj)
        if not isinstance(it, Tup):
            return Opaque(U(e))
        out = []
        for item in it.elts:
            sub = State(dict(st.env), st.events, st.conds)
            self.assign(g.target, item, sub, func, selfobj)
            out.append(self.eval(e.elt, sub, func, selfobj))
        return Tup(out)

    def truth(self, test, st, func, selfobj):
        T = self.T
        if isinstance(test, ast.Constant):
            return bool(test.value)
        if isinstance(test, ast.UnaryOp) and isinstance(test.op, ast.Not):
            t = self.truth(test.operand, st, func, selfobj)
            return None if t is None else (not t)
        if isinstance(test, ast.BoolOp):
            vals = [self.truth(v, st, func, selfobj) for v in test.values]
            if isinstance(test.op, ast.And):
                if any(v is False for v in vals):
                    return False
                return True if all(v is True for v in vals) else None
            if any(v is True for v in vals):
                return True
            return False if all(v is False for v in vals) else None
        if isinstance(test, ast.Compare):
            items = [test.left] + list(test.comparators)
            vals = [self.eval(x, st, func, selfobj) for x in items]
            res = []
            for a, op, b in zip(vals, test.ops, vals[1:]):
                res.append(self.cmp(a, op, b))
            if any(v is False for v in res):
                return False
            return True if all(v is True for v in res) else None
        v = self.eval(test, st, func, selfobj)
        if v is True or v is False:
            return v
        if v is None:
            return False
        if isinstance(v, Poly) and v.is_const():
            return v.const_value() != 0
        txt = U(test)
        for (c, val) in st.conds:
            if c == txt:
                return val
        return None

    def cmp(self, a, op, b):
        T = self.T
        if isinstance(op, (ast.Is, ast.IsNot)):
            if a is None and b is None:
                return isinstance(op, ast.Is)
            if (a is None) != (b is None) and not isinstance(a, Opaque) and not isinstance(b, Opaque):
                return isinstance(op, ast.IsNot)
            return None
        if isinstance(a, Tup) and isinstance(b, Tup) and isinstance(op, (ast.Eq, ast.NotEq)):
            if len(a.elts) != len(b.elts):
                return isinstance(op, ast.NotEq)
            rs = [self.cmp(x, ast.Eq(), y) for x, y in zip(a.elts, b.elts)]
            if all(r is True for r in rs):
                return isinstance(op, ast.Eq)
            if any(r is False for r in rs):
                return isinstance(op, ast.NotEq)
            return None
        if not (isinstance(a, Poly) and isinstance(b, Poly)):
            return None
        d = a - b
        if isinstance(op, ast.Eq):
            if d.is_zero():
                return True
            if T.nonneg(d - 1) or T.nonneg(-d - 1):
                return False
            return None
        if isinstance(op, ast.NotEq):
            r = self.cmp(a, ast.Eq(), b)
            return None if r is None else (not r)
        if isinstance(op, ast.Lt):   # a < b
            if T.nonneg(-d - 1):
                return True
            if T.nonneg(d):
                return False
            return None
        if isinstance(op, ast.LtE):
            if T.nonneg(-d):
                return True
            if T.nonneg(d - 1):
                return False
            return None
        if isinstance(op, ast.Gt):
            return self.cmp(b, ast.Lt(), a)
        if isinstance(op, ast.GtE):
            return self.cmp(b, ast.LtE(), a)
        return None

    # ------------------------------------------------------------------ calls
    def eval_call(self, e, st, func, selfobj):
        T = self.T
        txt = U(e.func)
        last = txt.split('.')[-1]
        args = e.args
        # lru_cache(maxsize=n)(f) is transparent
        if isinstance(e.func, ast.Call) and U(e.func.func).split('.')[-1] == 'lru_cache' and len(args) == 1:
            return self.eval(args[0], st, func, selfobj)
        # ---- primitives enumerated from the repository's idioms
        if txt in ('int', 'np.int32', 'np.int64', 'float') and len(args) == 1:
            return self.eval(args[0], st, func, selfobj)
        if txt == 'len' and len(args) == 1:
            v = self.eval(args[0], st, func, selfobj)
            if isinstance(v, (Buf, BufSlice, Bytes, Axis, RangeV)):
                return v.length
            if isinstance(v, Tup):
                return C(len(v.elts))
            return Opaque(U(e))
        if txt == 'bytearray' and len(args) == 1:
            n = self.eval(args[0], st, func, selfobj)
            if isinstance(n, Poly):
                b = Buf(n, e)
                self.emit(st, 'alloc', func, e, buf=b, length=n)
                return b
            return n   # bytearray(bytes-like): pass through
        if txt in ('bytes',) and len(args) == 1:
            return self.eval(args[0], st, func, selfobj)
        if txt == 'tuple' and len(args) == 1:
            v = self.eval(args[0], st, func, selfobj)
            return v if isinstance(v, Tup) else Opaque(U(e))
        if txt == 'map' and len(args) == 3 and U(args[0]) in ('floordiv', 'operator.floordiv'):
            a = self.eval(args[1], st, func, selfobj)
            b = self.eval(args[2], st, func, selfobj)
            if isinstance(a, Tup) and isinstance(b, Tup):
                return Tup([T.floordiv(x, y) if isinstance(x, Poly) and isinstance(y, Poly) else Opaque('map')
                            for x, y in zip(a.elts, b.elts)])
            return Opaque(U(e))
        if txt == 'zip':
            vs = [self.eval(a, st, func, selfobj) for a in args]
            if all(isinstance(v, Tup) for v in vs) and vs:
                return Tup([Tup(list(x)) for x in zip(*[v.elts for v in vs])])
            return Opaque(U(e))
        if txt == 'range' and 1 <= len(args) <= 2 and not e.keywords:
            vs = [self.eval(a, st, func, selfobj) for a in args]
            if all(isinstance(v, Poly) for v in vs):
                return RangeV(C(0), vs[0], e) if len(vs) == 1 else RangeV(vs[0], vs[1] - vs[0], e)
            return Opaque(U(e))
        if txt in ('math.prod', 'prod', 'np.prod', 'numpy.prod', 'sum') and len(args) == 1 and not e.keywords:
            v = self.eval(args[0], st, func, selfobj)
            if isinstance(v, Tup) and all(isinstance(x, Poly) for x in v.elts):
                acc = C(0) if txt == 'sum' else C(1)
                for x in v.elts:
                    acc = acc + x if txt == 'sum' else acc * x
                return acc
            return Opaque(U(e))
        if txt == 'divmod' and len(args) == 2:
            a = self.eval(args[0], st, func, selfobj)
            b = self.eval(args[1], st, func, selfobj)
            if isinstance(a, Poly) and isinstance(b, Poly):
                return Tup([T.floordiv(a, b), T.mod(a, b)])
            return Opaque(U(e))
        if txt == 'slice':
            vs = [self.eval(a, st, func, selfobj) for a in args]
            if len(vs) == 1:
                return SliceV(None, vs[0])
            if len(vs) >= 2:
                return SliceV(vs[0], vs[1], vs[2] if len(vs) > 2 else None)
        if txt in ('min', 'max') and len(args) == 2:
            a = self.eval(args[0], st, func, selfobj)
            b = self.eval(args[1], st, func, selfobj)
            if isinstance(a, Poly) and isinstance(b, Poly):
                if T.nonneg(b - a):
                    return a if txt == 'min' else b
                if T.nonneg(a - b):
                    return b if txt == 'min' else a
                key = '%s picks %s' % (txt, U(args[0]))
                self.cond_polys = getattr(self, 'cond_polys', {})
                self.cond_polys[key] = (txt, a, b)
                return MultiVal([a, b], [[(key, True)], [(key, False)]])
            return Opaque(U(e))
        if last == 'zeros' and args:
            shp = self.eval(args[0], st, func, selfobj)
            dt = [U(k.value) for k in e.keywords if k.arg == 'dtype']
            a = Arr(shp.elts if isinstance(shp, Tup) else [shp], 'zeros', e)
            a.dtype = dt[0] if dt else (U(args[1]) if len(args) > 1 else None)
            self.emit(st, 'alloc_arr', func, e, arr=a)
            return a
        if last == 'squeeze' and len(args) == 1:
            return self.eval(args[0], st, func, selfobj)
        if txt == 'zfpy._decompress':
            buf = self.eval(args[0], st, func, selfobj)
            shape = self.eval(args[2], st, func, selfobj) if len(args) > 2 else None
            kw = {k.arg: k for k in e.keywords}
            out = self.eval(kw['out'].value, st, func, selfobj) if 'out' in kw else None
            a = Arr(shape.elts if isinstance(shape, Tup) else None, 'decoded', e, src=buf)
            self.emit(st, 'decode', func, e, buf=buf, shape=shape, out=out, arr=a,
                      kwargs={k: U(v.value) for k, v in kw.items()}, ztype=U(args[1]) if len(args) > 1 else None)
            return a
        if last in ('ThreadPoolExecutor', 'cpu_count', 'dtype_to_ztype', 'dtype'):
            return Opaque(U(e))
        if txt in self.primitives:
            return self.primitives[txt](self, e, st, func, selfobj)

        # ---- package calls through the resolved call graph
        fv = None
        if last == 'submit' and args:
            fv = self.eval(args[0], st, func, selfobj)
            call_args = args[1:]
            pool = True
        else:
            fv = self.eval(e.func, st, func, selfobj)
            call_args = args
            pool = False
        if txt in ('partial', 'functools.partial') and args:
            base = self.eval(args[0], st, func, selfobj)
            if isinstance(base, FuncVal) and base.targets:
                pv = FuncVal(base.targets, base.selfobj, base.text)
                pv.bound_args = list(base.bound_args) + [ast.Constant(value=_Pre(self.eval(a, st, func, selfobj)))
                                                         for a in args[1:] if not isinstance(a, ast.Starred)]
                pv.bound_kw = list(base.bound_kw) + [ast.keyword(arg=k.arg, value=ast.Constant(value=_Pre(
                    self.eval(k.value, st, func, selfobj)))) for k in e.keywords if k.arg]
                return pv
            return Opaque(U(e))
        if isinstance(fv, FuncVal) and fv.targets:
            vals = []
            kws = list(fv.bound_kw) + [k for k in e.keywords if pool is False or k.arg]
            for (tgt, skip) in fv.targets:
                vals.append(self.call(tgt, fv.selfobj if skip else None, list(fv.bound_args) + list(call_args), kws, st,
                                      func, selfobj, e, pool))
            if len(vals) == 1:
                return vals[0]
            return vals[0] if all(same(vals[0], v) for v in vals[1:]) else Opaque(U(e))
        if isinstance(fv, ClassVal):
            return self.instantiate(fv.cls, call_args, e.keywords, st, func, selfobj, e)
        if last in ('append', 'extend', 'add', 'insert', 'put') and not pool:
            # futures.append(executor.submit(...)): the collected value is evaluated for its effects
            for a in call_args:
                if not isinstance(a, ast.Starred):
                    self.eval(a, st, func, selfobj)
        return Opaque(U(e))

    def instantiate(self, cls, call_args, keywords, st, func, selfobj, node):
        obj = Obj(cls, name=cls.name)
        obj.init_envs = {}
        init = cls.find_method('__init__')
        if init is not None:
            params = init.params[1:]
            env = {}
            argv = [self.eval(a, st, func, selfobj) for a in call_args if not isinstance(a, ast.Starred)]
            for p_, v in zip(params, argv):
                env[p_] = v
            for k in keywords:
                if k.arg:
                    env[k.arg] = self.eval(k.value, st, func, selfobj)
            for p_ in params:
                if p_ not in env:
                    env[p_] = self.eval(init.defaults[p_], State({}), init, obj) if p_ in init.defaults \
                        else Opaque('unbound ' + p_)
            obj.init_envs[init.qualname] = env
        self.emit(st, 'new', func, node, obj=obj)
        return obj

    def call(self, tgt, recv, call_args, keywords, st, func, selfobj, node, pool=False):
        """Inline a package function on the *current* state (callee forks are merged by value when
        they agree; a callee that may raise contributes only its returning paths)."""
        if len(self.stack) > self.MAX_DEPTH or any(s[0] == 'call' and s[1] is tgt for s in self.stack):
            return Opaque('recursion ' + tgt.qualname)
        if tgt.qualname in self.primitives:
            return self.primitives[tgt.qualname](self, node, st, func, selfobj, tgt=tgt, recv=recv,
                                                 call_args=call_args, keywords=keywords)
        params = tgt.params[1:] if recv is not None or tgt.is_method else list(tgt.params)
        env = {}
        argv = [self.eval(a, st, func, selfobj) for a in call_args if not isinstance(a, ast.Starred)]
        for p, v in zip(params, argv):
            env[p] = v
        for k in keywords:
            if k.arg:
                env[k.arg] = self.eval(k.value, st, func, selfobj)
        for p in params + tgt.kwonly:
            if p not in env and p in tgt.defaults:
                env[p] = self.eval(tgt.defaults[p], State({}), tgt, recv)
            elif p not in env:
                env[p] = Opaque('unbound ' + p)
        sub = State(env, st.events, list(st.conds))
        self.stack.append(('call', tgt, node, func, pool))
        try:
            outs = self.run_body(tgt.node.body, [sub], tgt, recv)
        finally:
            self.stack.pop()
        rets = [o for o in outs if o.kind in ('return', 'fall')]
        if not rets:
            st.events = outs[0].state.events if outs else st.events
            return Opaque('no-return ' + tgt.qualname)
        # merge: events of the first returning path are adopted; other paths' events are appended
        seen = set(id(ev) for ev in st.events)
        merged = list(st.events)
        for o in rets:
            for ev in o.state.events:
                if id(ev) not in seen:
                    seen.add(id(ev))
                    ev.path_cond = list(o.state.conds[len(st.conds):]) if len(o.state.conds) > len(st.conds) else getattr(ev, 'path_cond', [])
                    merged.append(ev)
        st.events[:] = merged
        vals = [o.value for o in rets]
        if len(vals) == 1 or all(same(vals[0], v) for v in vals[1:]):
            return vals[0]
        return MultiVal(vals, [o.state.conds[len(st.conds):] for o in rets])

    # ------------------------------------------------------------------ statements
    def assign(self, target, value, st, func, selfobj):
        if isinstance(target, ast.Name):
            ax = self.param_axis(target.id)
            if ax is not None and (isinstance(value, Opaque) or (isinstance(value, Poly) and self.T.has_opaque(value))):
                # any non-negative integer has a digit expansion; the name only chooses the radix
                nm = '%s@%s' % (target.id, func.name)
                value = self.digit_var(nm, ax)
                # remembered: a quantity standing for "some integer the evaluator could not express"; nothing may be
                # concluded from its form (only from constraints placed on it)
                OPAQUE_BORN.add(nm)
            st.env[target.id] = value
        elif isinstance(target, (ast.Tuple, ast.List)):
            if isinstance(value, Tup) and len(value.elts) == len(target.elts):
                for t, v in zip(target.elts, value.elts):
                    self.assign(t, v, st, func, selfobj)
            else:
                for i, t in enumerate(target.elts):
                    self.assign(t, Opaque('%r[%d]' % (value, i)), st, func, selfobj)
        elif isinstance(target, ast.Attribute):
            base = self.eval(target.value, st, func, selfobj)
            if isinstance(base, Obj):
                base.attrs[target.attr] = value
        elif isinstance(target, ast.Subscript):
            base = self.eval(target.value, st, func, selfobj)
            idx = self.eval_index(target.slice, st, func, selfobj)
            if isinstance(base, Buf):
                self.emit(st, 'bufstore', func, target, buf=base, index=idx, value=value)
            elif isinstance(base, (Arr, ArrView)):
                self.emit(st, 'arrstore', func, target, arr=base if isinstance(base, Arr) else base.arr,
                          index=idx, value=value)
            elif isinstance(base, Opaque):
                self.emit(st, 'opstore', func, target, base=U(target.value), index=idx, value=value)

    def run_body(self, body, states, func, selfobj):
        """-> list[Outcome]; states that fall off the end come back with kind 'fall'."""
        done = []
        live = list(states)
        for s in body:
            nxt = []
            for st in live:
                for o in self.stmt(s, st, func, selfobj):
                    if o.kind == 'fall':
                        nxt.append(o.state)
                    else:
                        done.append(o)
            live = nxt
            if len(live) > self.MAX_STATES:
                raise AnalysisError('symbolic evaluation of %s forks into more than %d states' % (
                    func.qualname, self.MAX_STATES))
            if not live:
                break
        return done + [Outcome(st, 'fall') for st in live]

    def stmt(self, s, st, func, selfobj):
        if isinstance(s, ast.Expr):
            self.eval(s.value, st, func, selfobj)
            return [Outcome(st, 'fall')]
        if isinstance(s, ast.Assign):
            v = self.eval(s.value, st, func, selfobj)
            if isinstance(s.value, ast.IfExp) and isinstance(v, Opaque):
                # undecidable conditional expression at statement level: fork like an `if` statement
                a = self.eval(s.value.body, st, func, selfobj)
                b = self.eval(s.value.orelse, st, func, selfobj)
                t = s.value.test
                key = 'ifexp ' + U(t)
                # only comparisons between index polynomials are forked; `x is None` defaulting stays one general value
                if isinstance(t, ast.Compare) and len(t.ops) == 1 and isinstance(a, Poly) and isinstance(b, Poly):
                    l = self.eval(t.left, st, func, selfobj)
                    r = self.eval(t.comparators[0], st, func, selfobj)
                    if isinstance(l, Poly) and isinstance(r, Poly):
                        self.cond_polys = getattr(self, 'cond_polys', {})
                        self.cond_polys[key] = (type(t.ops[0]).__name__, l, r)
                        v = MultiVal([a, b], [[(key, True)], [(key, False)]])
            if isinstance(v, MultiVal):
                outs = []
                for val, conds in zip(v.vals, v.conds):
                    f2 = st.fork()
                    f2.conds.extend(conds)
                    for t in s.targets:
                        self.assign(t, val, f2, func, selfobj)
                    outs.append(Outcome(f2, 'fall'))
                return outs
            for t in s.targets:
                self.assign(t, v, st, func, selfobj)
            return [Outcome(st, 'fall')]
        if isinstance(s, ast.AugAssign):
            cur = self.eval(s.target, st, func, selfobj)
            v = self.eval(ast.BinOp(left=s.target, op=s.op, right=s.value), st, func, selfobj)
            self.assign(s.target, v, st, func, selfobj)
            return [Outcome(st, 'fall')]
        if isinstance(s, ast.Return):
            v = self.eval(s.value, st, func, selfobj) if s.value is not None else None
            if isinstance(v, MultiVal):
                outs = []
                for val, conds in zip(v.vals, v.conds):
                    f2 = st.fork()
                    f2.conds.extend(conds)
                    outs.append(Outcome(f2, 'return', val, s))
                return outs
            self.emit(st, 'return', func, s, value=v)
            return [Outcome(st, 'return', v, s)]
        if isinstance(s, ast.Raise):
            self.emit(st, 'raise', func, s, exc=U(s.exc.func) if isinstance(s.exc, ast.Call) else U(s.exc))
            return [Outcome(st, 'raise', None, s)]
        if isinstance(s, ast.Assert):
            t = self.truth(s.test, st, func, selfobj)
            if t is False:
                return [Outcome(st, 'raise', None, s)]
            if t is None:
                st.conds.append((U(s.test), True))
            return [Outcome(st, 'fall')]
        if isinstance(s, ast.If):
            # `if c: x = a  else: x = b`  (or one-armed, else keeps x) is the conditional expression `x = a if c else b`:
            # evaluate it as one value so that the pad / alignment idioms stay one polynomial
            m = _as_conditional_assign(s)
            if m is not None:
                return self.stmt(m, st, func, selfobj)
            t = self.truth(s.test, st, func, selfobj)
            if t is True:
                return self.run_body(s.body, [st], func, selfobj)
            if t is False:
                return self.run_body(s.orelse, [st], func, selfobj) if s.orelse else [Outcome(st, 'fall')]
            if self._effect_free(s.body) and self._effect_free(s.orelse):
                return [Outcome(st, 'fall')]      # diagnostics only: no need to fork
            a, b = st.fork(), st.fork()
            a.conds.append((U(s.test), True))
            b.conds.append((U(s.test), False))
            outs = self.run_body(s.body, [a], func, selfobj)
            outs += self.run_body(s.orelse, [b], func, selfobj) if s.orelse else [Outcome(b, 'fall')]
            return outs
        if isinstance(s, (ast.For,)):
            return self.for_loop(s, st, func, selfobj)
        if isinstance(s, ast.While):
            # only `while cond` loops without index arithmetic occur; evaluate the body once
            self.loops.append(Loop('while@L%d' % s.lineno, None, s))
            try:
                self.run_body(s.body, [st], func, selfobj)
            finally:
                self.loops.pop()
            return [Outcome(st, 'fall')]
        if isinstance(s, ast.With):
            for it in s.items:
                v = self.eval(it.context_expr, st, func, selfobj)
                if it.optional_vars is not None:
                    self.assign(it.optional_vars, v if not isinstance(v, Poly) else v, st, func, selfobj)
            return self.run_body(s.body, [st], func, selfobj)
        if isinstance(s, ast.Try):
            return self.run_body(s.body + s.orelse + s.finalbody, [st], func, selfobj)
        if isinstance(s, (ast.Pass, ast.Import, ast.ImportFrom, ast.FunctionDef, ast.ClassDef, ast.Global,
                          ast.Nonlocal, ast.Delete, ast.Break, ast.Continue, ast.AnnAssign)):
            return [Outcome(st, 'fall')]
        return [Outcome(st, 'fall')]

    def _range_of(self, it, st, func, selfobj):
        enum = False
        if isinstance(it, ast.Call) and U(it.func) == 'enumerate' and it.args:
            enum = True
            it = it.args[0]
        if isinstance(it, ast.Call) and U(it.func) == 'range':
            vs = [self.eval(a, st, func, selfobj) for a in it.args]
            if all(isinstance(v, Poly) for v in vs):
                if len(vs) == 1:
                    return C(0), vs[0], enum, it
                if len(vs) == 2:
                    return vs[0], vs[1] - vs[0], enum, it
        if isinstance(it, (ast.Name, ast.Attribute)):
            # a range object held in a local: blocks = range(lo, hi); for b in blocks
            v = self.eval(it, st, func, selfobj)
            if isinstance(v, RangeV):
                return v.lo, v.count, enum, v.node
        return None

    def _seq_of(self, it, st, func, selfobj):
        """(SeqV, enumerated?) when the iterable is a list built by a comprehension over a range (held in a local)"""
        enum = False
        if isinstance(it, ast.Call) and U(it.func) == 'enumerate' and len(it.args) == 1 and not it.keywords:
            enum = True
            it = it.args[0]
        if isinstance(it, (ast.Name, ast.Attribute)):
            v = self.eval(it, st, func, selfobj)
            if isinstance(v, SeqV):
                return v, enum
        return None

    @staticmethod
    def _effect_free(body):
        for x in body:
            if isinstance(x, ast.Pass):
                continue
            if isinstance(x, ast.Expr) and isinstance(x.value, ast.Call) and \
                    U(x.value.func).split('.')[-1] in ('print', 'warn', 'progress_printer', 'echo'):
                continue
            if isinstance(x, ast.Expr) and isinstance(x.value, ast.Constant):
                continue
            return False
        return True

    def _loop_carried(self, loop, st, func, selfobj):
        """{name: increment per iteration (Poly) or None} for the local names the loop body both reads and re-assigns
        from their own value."""
        body = loop.body
        aug = {}
        for n in ast.walk(ast.Module(body=list(body), type_ignores=[])):
            if isinstance(n, ast.AugAssign) and isinstance(n.target, ast.Name):
                aug.setdefault(n.target.id, []).append(n)
            elif isinstance(n, ast.Assign):
                for t in n.targets:
                    for x in ast.walk(t):
                        if isinstance(x, ast.Name) and any(isinstance(y, ast.Name) and y.id == x.id for y in ast.walk(n.value)):
                            aug.setdefault(x.id, []).append(n)       # v = v + c  style
        out = {}
        for nm, sites in aug.items():
            if nm not in st.env or not isinstance(st.env[nm], Poly):
                continue      # numeric locals only (byte strings grown with += keep their own model)
            # other plain assignments to the name inside the body (a reset) : unknown
            plain = [n for n in ast.walk(ast.Module(body=list(body), type_ignores=[])) if isinstance(n, ast.Assign) and
                     any(isinstance(x, ast.Name) and x.id == nm and isinstance(x.ctx, ast.Store) for t in n.targets for x in ast.walk(t))
                     and n not in sites]
            inc = None if plain else self._increment_of(body, nm, st, func, selfobj)
            out[nm] = inc
        return out

    def _increment_of(self, body, nm, st, func, selfobj):
        """total amount added to ``nm`` by one execution of the statement list, or None when not a fixed amount"""
        total = C(0)
        for stmt in body:
            touches = any((isinstance(x, ast.Name) and x.id == nm and isinstance(x.ctx, ast.Store)) for x in ast.walk(stmt))
            if not touches:
                continue
            if isinstance(stmt, ast.AugAssign) and isinstance(stmt.target, ast.Name) and stmt.target.id == nm and \
                    isinstance(stmt.op, (ast.Add, ast.Sub)):
                if any(isinstance(x, ast.Name) and x.id == nm for x in ast.walk(stmt.value)):
                    return None
                c = self.eval(stmt.value, st, func, selfobj)
                if not isinstance(c, Poly):
                    return None
                total = total + c if isinstance(stmt.op, ast.Add) else total - c
            elif isinstance(stmt, ast.For) and not stmt.orelse:
                rng = self._range_of(stmt.iter, st, func, selfobj)
                if rng is None or rng[1] is None:
                    return None
                inner = self._increment_of(stmt.body, nm, st, func, selfobj)
                if inner is None:
                    return None
                # the inner increment must not depend on the inner loop variable (it was evaluated without it: a name
                # bound by the inner loop would have been opaque / unknown)
                total = total + rng[1] * inner
            else:
                return None
        return total

    def for_loop(self, s, st, func, selfobj):
        T = self.T
        rng = self._range_of(s.iter, st, func, selfobj)
        lo = count = None
        enum = False
        if rng is not None:
            lo, count, enum, _ = rng
        name = '%s@%s.L%d' % (_first_name(s.target), func.name, s.lineno)
        sq = self._seq_of(s.iter, st, func, selfobj) if rng is None else None
        if sq is not None:
            seq, enum = sq
            count, lo = seq.count, C(0)
            k = T.declare(name, 0, count, kind='loop', count=count, start=lo, node=s)
            loop = Loop(name, count, s)
            loop.lo = lo
            item = seq.elt.subst({seq.atom: k})
            if enum and isinstance(s.target, (ast.Tuple, ast.List)) and len(s.target.elts) == 2:
                self.assign(s.target.elts[0], k, st, func, selfobj)
                self.assign(s.target.elts[1], item, st, func, selfobj)
            else:
                self.assign(s.target, item, st, func, selfobj)
        elif count is not None:
            k = T.declare(name, 0, count, kind='loop', count=count, start=lo, node=s)
            loop = Loop(name, count, s)
            loop.lo = lo
            if enum and isinstance(s.target, (ast.Tuple, ast.List)) and len(s.target.elts) == 2:
                self.assign(s.target.elts[0], k, st, func, selfobj)
                self.assign(s.target.elts[1], lo + k, st, func, selfobj)
            else:
                self.assign(s.target, lo + k, st, func, selfobj)
        else:
            itv = self.eval(s.iter, st, func, selfobj)
            loop = Loop(name, None, s)
            loop.lo = None
            loop.iter = itv
            self.assign(s.target, Opaque('item of ' + U(s.iter)), st, func, selfobj)
        # loop-carried locals: a name advanced by `v += c` (c loop-invariant, unconditional, possibly inside nested loops of
        # constant trip count) has the closed form  v = v_entry + k * (increment per iteration)  at the top of iteration
        # k; any other name that the body assigns and also reads before assigning it is not a function of k we know:
        # it becomes opaque for the body (so nothing is concluded from its entry value).
        carried_after = {}
        for nm, inc in self._loop_carried(s, st, func, selfobj).items():
            entry = st.env.get(nm)
            if inc is not None and isinstance(entry, Poly) and count is not None:
                st.env[nm] = entry + k * inc
                carried_after[nm] = entry + count * inc
            else:
                st.env[nm] = Opaque('loop-carried ' + nm)
                carried_after[nm] = Opaque('loop-carried ' + nm)
        self.loops.append(loop)
        try:
            outs = self.run_body(s.body, [st], func, selfobj)
        finally:
            self.loops.pop()
        for o in outs:
            if o.kind == 'fall':
                for nm, v in carried_after.items():
                    o.state.env[nm] = v
        res = []
        falls = [o for o in outs if o.kind == 'fall']
        for o in outs:
            if o.kind != 'fall':
                res.append(o)
        # continue after the loop on the (first) falling state; events are shared lists already
        if falls:
            res.append(Outcome(falls[0].state, 'fall'))
            for extra in falls[1:]:
                res.append(Outcome(extra.state, 'fall'))
        elif not res:
            res.append(Outcome(st, 'fall'))
        return res


def _first_name(t):
    if isinstance(t, (ast.Tuple, ast.List)) and t.elts:
        return _first_name(t.elts[-1])
    return U(t).replace(' ', '')


class SeqV:
    """[elt(k) for k in range(lo, lo + count)] held as a value: the element as a polynomial in the loop atom"""

    def __init__(self, count, atom, elt, node):
        self.count, self.atom, self.elt, self.node = count, atom, elt, node
        self.length = count

    def __repr__(self):
        return 'seq(%r for %s < %r)' % (self.elt, self.atom, self.count)


class RangeV:
    """range(lo, lo + count) held as a value"""

    def __init__(self, lo, count, node):
        self.lo, self.count, self.node = lo, count, node
        self.length = count

    def __repr__(self):
        return 'range(%r, +%r)' % (self.lo, self.count)


class Packed:
    """result of a struct codec: remembers the encoded value"""

    def __init__(self, value, codec):
        self.value, self.codec = value, codec

    def __repr__(self):
        return '%s(%r)' % (self.codec, self.value)


class ClassVal:
    def __init__(self, cls):
        self.cls = cls


class MultiVal:
    def __init__(self, vals, conds):
        self.vals, self.conds = vals, conds

    def __repr__(self):
        return 'multi%r' % (self.vals,)


def same(a, b):
    if isinstance(a, Poly) and isinstance(b, Poly):
        return a == b
    if isinstance(a, Tup) and isinstance(b, Tup):
        return len(a.elts) == len(b.elts) and all(same(x, y) for x, y in zip(a.elts, b.elts))
    if isinstance(a, Opaque) and isinstance(b, Opaque):
        return a.text == b.text
    if isinstance(a, Bytes) and isinstance(b, Bytes):
        return same(a.offset, b.offset) and same(a.length, b.length)
    return a is b
