"""E5 - byte-table extraction: every constant byte range written into or read from an SGZ
header buffer, with its codec, plus the table of docs/file-specification.md.

Nothing is hard-coded about the slots: ranges, codecs (struct formats are read off utils.py)
and the specification rows are all extracted from the tree under analysis.
"""
import ast
import os
import re
import struct
from .core import U, AnalysisError, parent, enclosing_stmt
from .facts import FactMap


def const_eval(P, module, node, func=None, _depth=0, env=None):
    """integer value of an expression built from literals, module constants and (when ``func`` is given) locals of
    that function that are assigned exactly once from such an expression; else None."""
    if node is None or _depth > 6:
        return None
    if isinstance(node, ast.Constant) and isinstance(node.value, int) and not isinstance(node.value, bool):
        return node.value
    if isinstance(node, (ast.Name, ast.Attribute)):
        if env and isinstance(node, ast.Name) and node.id in env:
            return env[node.id]
        v = P.const_value(module, U(node))
        if isinstance(v, int) and not isinstance(v, bool):
            return v
        if func is not None and isinstance(node, ast.Name):
            ds = [n for n in ast.walk(func.node) if isinstance(n, ast.Assign) and len(n.targets) == 1 and
                  isinstance(n.targets[0], ast.Name) and n.targets[0].id == node.id]
            augs = [n for n in ast.walk(func.node) if isinstance(n, ast.AugAssign) and U(n.target) == node.id]
            loops = [n for n in ast.walk(func.node) if isinstance(n, (ast.For, ast.comprehension)) and node.id in U(n.target)]
            if len(ds) == 1 and not augs and not loops:
                return const_eval(P, module, ds[0].value, func, _depth + 1, env)
        return None
    if isinstance(node, ast.Subscript) and isinstance(node.slice, ast.Constant) and isinstance(node.slice.value, int) and \
            isinstance(node.value, ast.Name) and func is not None:
        # element of a tuple held in a local that is assigned once from a display
        ds = [n for n in ast.walk(func.node) if isinstance(n, ast.Assign) and len(n.targets) == 1 and
              isinstance(n.targets[0], ast.Name) and n.targets[0].id == node.value.id]
        others = [n for n in ast.walk(func.node) if isinstance(n, (ast.AugAssign, ast.For, ast.comprehension)) and
                  node.value.id in U(n.target)]
        if len(ds) == 1 and not others and isinstance(ds[0].value, (ast.Tuple, ast.List)) and \
                -len(ds[0].value.elts) <= node.slice.value < len(ds[0].value.elts):
            return const_eval(P, module, ds[0].value.elts[node.slice.value], func, _depth + 1, env)
        return None
    if isinstance(node, ast.BinOp):
        a, b = const_eval(P, module, node.left, func, _depth + 1, env), const_eval(P, module, node.right, func, _depth + 1, env)
        if a is None or b is None:
            return None
        if isinstance(node.op, ast.Add):
            return a + b
        if isinstance(node.op, ast.Sub):
            return a - b
        if isinstance(node.op, ast.Mult):
            return a * b
        if isinstance(node.op, ast.FloorDiv) and b:
            return a // b
    return None


class Codec:
    def __init__(self, name, fmts, direction):
        self.name = name
        self.fmts = fmts          # {width: struct format}
        self.direction = direction  # 'pack' | 'unpack'

    def fmt_for(self, width):
        return self.fmts.get(width)

    def __repr__(self):
        return '%s%s' % (self.name, self.fmts)


def codecs(P):
    """struct-based codec functions of utils.py, read off their bodies."""
    m = P.modules.get('utils')
    if m is None:
        raise AnalysisError('module utils not found')
    out = {}
    for f in m.functions.values():
        fm = {}
        direction = None
        for n in ast.walk(f.node):
            if isinstance(n, ast.Call) and U(n.func) in ('struct.pack', 'struct.unpack') and n.args and \
                    isinstance(n.args[0], ast.Constant) and isinstance(n.args[0].value, str):
                fmt = n.args[0].value
                try:
                    w = struct.calcsize(fmt)
                except struct.error:
                    raise AnalysisError('bad struct format %r in %s' % (fmt, f.qualname))
                # width-dispatch: `if len(bytes) == 4:` guards
                guard = None
                p = parent(n)
                while p is not None and p is not f.node:
                    if isinstance(p, ast.If) and isinstance(p.test, ast.Compare) and U(p.test.left).startswith('len(') \
                            and isinstance(p.test.comparators[0], ast.Constant):
                        guard = p.test.comparators[0].value
                        break
                    p = parent(p)
                if guard is not None and guard != w:
                    raise AnalysisError('%s: struct format %r has width %d under a len == %d guard' % (
                        f.qualname, fmt, w, guard))
                fm[w] = fmt
                direction = 'pack' if U(n.func).endswith('pack') and not U(n.func).endswith('unpack') else 'unpack'
            elif isinstance(n, ast.Call) and U(n.func) in ('struct.pack', 'struct.unpack') and n.args and \
                    isinstance(n.args[0], (ast.Name, ast.Call, ast.Subscript)):
                # format chosen by the width of the buffer from a literal table:  fmt = {4: '<I', 2: '<H'}.get(len(b))
                sel = n.args[0]
                if isinstance(sel, ast.Name):
                    ds = [a for a in ast.walk(f.node) if isinstance(a, ast.Assign) and len(a.targets) == 1 and U(a.targets[0]) == sel.id]
                    sel = ds[0].value if len(ds) == 1 else None
                table = key = None
                if isinstance(sel, ast.Call) and isinstance(sel.func, ast.Attribute) and sel.func.attr == 'get' and len(sel.args) >= 1:
                    table, key = sel.func.value, sel.args[0]
                elif isinstance(sel, ast.Subscript):
                    table, key = sel.value, sel.slice
                if isinstance(table, ast.Name):
                    ds = [a for a in ast.walk(f.node) if isinstance(a, ast.Assign) and len(a.targets) == 1 and U(a.targets[0]) == table.id]
                    table = ds[0].value if len(ds) == 1 else None
                if isinstance(table, ast.Dict) and key is not None and U(key).startswith('len(') and \
                        all(isinstance(k, ast.Constant) and isinstance(v, ast.Constant) and isinstance(v.value, str)
                            for k, v in zip(table.keys, table.values)):
                    for k, v in zip(table.keys, table.values):
                        try:
                            w = struct.calcsize(v.value)
                        except struct.error:
                            raise AnalysisError('bad struct format %r in %s' % (v.value, f.qualname))
                        if w != k.value:
                            raise AnalysisError('%s: struct format %r has width %d under the table key %r' % (f.qualname, v.value, w, k.value))
                        fm[w] = v.value
                    direction = 'pack' if U(n.func).endswith('pack') and not U(n.func).endswith('unpack') else 'unpack'
            elif isinstance(n, ast.Call) and isinstance(n.func, ast.Attribute) and n.func.attr in ('pack', 'unpack') and \
                    isinstance(n.func.value, ast.Name):
                # a pre-compiled module-level struct:  DOUBLE = struct.Struct('<d');  DOUBLE.pack(v)
                cn = m.const_nodes.get(n.func.value.id)
                if isinstance(cn, ast.Call) and U(cn.func) in ('struct.Struct', 'Struct') and cn.args and \
                        isinstance(cn.args[0], ast.Constant) and isinstance(cn.args[0].value, str):
                    fmt = cn.args[0].value
                    try:
                        w = struct.calcsize(fmt)
                    except struct.error:
                        raise AnalysisError('bad struct format %r in %s' % (fmt, f.qualname))
                    fm[w] = fmt
                    direction = 'pack' if n.func.attr == 'pack' else 'unpack'
        # the format held in a local chosen by the width of the buffer:  if len(b) == 4: fmt = '<I' ..; unpack(fmt, b)
        for n in ast.walk(f.node):
            if isinstance(n, ast.Call) and U(n.func) in ('struct.pack', 'struct.unpack') and n.args and isinstance(n.args[0], ast.Name):
                for a in ast.walk(f.node):
                    if isinstance(a, ast.Assign) and len(a.targets) == 1 and U(a.targets[0]) == n.args[0].id and \
                            isinstance(a.value, ast.Constant) and isinstance(a.value.value, str):
                        try:
                            w = struct.calcsize(a.value.value)
                        except struct.error:
                            raise AnalysisError('bad struct format %r in %s' % (a.value.value, f.qualname))
                        p = parent(a)
                        guard = None
                        if isinstance(p, ast.If) and isinstance(p.test, ast.Compare) and U(p.test.left).startswith('len(') and \
                                isinstance(p.test.comparators[0], ast.Constant) and a in p.body:
                            guard = p.test.comparators[0].value
                        if guard is not None and guard != w:
                            raise AnalysisError('%s: struct format %r has width %d under a len == %d guard' % (f.qualname, a.value.value, w, guard))
                        fm[w] = a.value.value
                        direction = 'pack' if U(n.func).endswith('pack') and not U(n.func).endswith('unpack') else 'unpack'
        if fm:
            out[f.name] = Codec(f.name, fm, direction)
    # codecs that delegate to another codec of the module:  return int_to_bytes(int(x))
    changed = True
    while changed:
        changed = False
        for f in m.functions.values():
            if f.name in out:
                continue
            rets = [r for r in ast.walk(f.node) if isinstance(r, ast.Return) and isinstance(r.value, ast.Call)]
            if len(rets) == 1 and isinstance(rets[0].value.func, ast.Name) and rets[0].value.func.id in out and \
                    len([c for c in ast.walk(f.node) if isinstance(c, ast.Call) and isinstance(c.func, ast.Name) and c.func.id in out]) == 1:
                src = out[rets[0].value.func.id]
                out[f.name] = Codec(f.name, dict(src.fmts), src.direction)
                changed = True
    if len(out) < 6:
        raise AnalysisError('expected the struct codecs of utils.py, found only %s' % sorted(out))
    return out


def fmt_type(fmt):
    """'<I' -> ('little', 'uint', 4)"""
    if not fmt:
        return None
    order = {'<': 'little', '>': 'big', '=': 'native', '!': 'big'}.get(fmt[0], 'native')
    c = fmt[-1]
    kind = {'I': 'uint', 'i': 'int', 'H': 'uint', 'h': 'int', 'd': 'float', 'f': 'float', 'Q': 'uint', 'q': 'int',
            'B': 'uint', 'b': 'int', 'L': 'uint', 'l': 'int'}.get(c, '?')
    return (order, kind, struct.calcsize(fmt))


class Slot:
    def __init__(self, kind, func, node, lo, hi, codec, fmt, value, buf, stmt):
        self.kind = kind      # store | patch | load
        self.func, self.node = func, node
        self.lo, self.hi = lo, hi
        self.codec, self.fmt = codec, fmt
        self.value = value    # expression written (store/patch) or the whole decoding expr (load)
        self.buf = buf
        self.stmt = stmt

    @property
    def width(self):
        return self.hi - self.lo

    def __repr__(self):
        return '<%s %s[%d:%d] %s %s in %s L%d>' % (self.kind, self.buf, self.lo, self.hi, self.codec, self.fmt,
                                                    self.func.qualname, self.node.lineno)


HEADER_BUF_MARKERS = ('headerbytes',)


def header_buffers(P, f):
    """local names in f that hold an SGZ header buffer:
    bytearray(DISK_BLOCK_BYTES * n), bytearray(self.headerbytes)[.copy()], or the result of a package
    function that returns such a buffer (make_header -> make_header_seismic_file)."""
    names = {}
    for n in ast.walk(f.node):
        if isinstance(n, ast.Assign) and len(n.targets) == 1 and isinstance(n.targets[0], ast.Name):
            v = n.value
            while isinstance(v, ast.Call) and isinstance(v.func, ast.Attribute) and v.func.attr == 'copy':
                v = v.func.value
            if isinstance(v, ast.Call) and U(v.func) == 'bytearray' and v.args:
                a = v.args[0]
                if 'DISK_BLOCK_BYTES' in U(a) or any(mk in U(a) for mk in HEADER_BUF_MARKERS):
                    names[n.targets[0].id] = 'fresh' if 'DISK_BLOCK_BYTES' in U(a) else 'copy'
    return names


def returns_header_buffer(P, G):
    """package functions returning a header buffer (transitively)."""
    out = {}
    changed = True
    while changed:
        changed = False
        for f in P.functions.values():
            if f.qualname in out:
                continue
            bufs = header_buffers(P, f)
            for n in ast.walk(f.node):
                if isinstance(n, ast.Assign) and len(n.targets) == 1 and isinstance(n.targets[0], ast.Name) and \
                        isinstance(n.value, ast.Call):
                    for e in G.edges_at(f, n.value):
                        if e.target is not None and e.target.qualname in out:
                            bufs[n.targets[0].id] = out[e.target.qualname]
            for r in ast.walk(f.node):
                if isinstance(r, ast.Return) and isinstance(r.value, ast.Name) and r.value.id in bufs:
                    out[f.qualname] = bufs[r.value.id]
                    changed = True
                    break
    return out


def extract(P, G):
    """-> (stores, patches, loads)"""
    C = codecs(P)
    ret_buf = returns_header_buffer(P, G)
    stores, patches, loads = [], [], []
    for f in P.functions.values():
        bufs = header_buffers(P, f)
        for n in ast.walk(f.node):
            if isinstance(n, ast.Assign) and len(n.targets) == 1 and isinstance(n.targets[0], ast.Name) and \
                    isinstance(n.value, ast.Call):
                for e in G.edges_at(f, n.value):
                    if e.target is not None and e.target.qualname in ret_buf:
                        bufs[n.targets[0].id] = ret_buf[e.target.qualname]
        # slice stores
        for n in ast.walk(f.node):
            if isinstance(n, ast.Assign) and len(n.targets) == 1 and isinstance(n.targets[0], ast.Subscript):
                t = n.targets[0]
                if isinstance(t.value, ast.Name) and t.value.id in bufs and isinstance(t.slice, ast.Slice):
                    lo, hi = const_eval(P, f.module, t.slice.lower, f), const_eval(P, f.module, t.slice.upper, f)
                    if lo is None or hi is None:
                        # variable ranges (the header-word table rows) are handled by their own rule
                        continue
                    # adjacent fields written by one statement: buf[a:c] = enc(x) + enc(y)
                    parts = []
                    v_ = n.value
                    while isinstance(v_, ast.BinOp) and isinstance(v_.op, ast.Add):
                        parts.insert(0, v_.right)
                        v_ = v_.left
                    parts.insert(0, v_)
                    if len(parts) > 1:
                        widths = []
                        for p_ in parts:
                            nm = U(p_.func).split('.')[-1] if isinstance(p_, ast.Call) else None
                            w_ = None
                            if nm in C and len(C[nm].fmts) == 1:
                                w_ = list(C[nm].fmts)[0]
                            widths.append(w_)
                        if all(w_ is not None for w_ in widths) and sum(widths) == hi - lo:
                            cur = lo
                            for p_, w_ in zip(parts, widths):
                                codec, fmt, val = codec_of(p_, C, w_)
                                stores.append(Slot('store', f, t, cur, cur + w_, codec, fmt, val, t.value.id, n))
                                cur += w_
                            continue
                    codec, fmt, val = codec_of(n.value, C, hi - lo)
                    stores.append(Slot('store', f, t, lo, hi, codec, fmt, val, t.value.id, n))
        # seek + write patches
        for n in ast.walk(f.node):
            if isinstance(n, ast.Call) and isinstance(n.func, ast.Attribute) and n.func.attr == 'seek' and n.args:
                off = const_eval(P, f.module, n.args[0], f)
                st = enclosing_stmt(n)
                if off is None or st is None:
                    continue
                from .iorules import block_of
                blk = block_of(st)
                if not blk:
                    continue
                i = blk.index(st)
                if i + 1 < len(blk):
                    nx = blk[i + 1]
                    if isinstance(nx, ast.Expr) and isinstance(nx.value, ast.Call) and isinstance(nx.value.func, ast.Attribute) \
                            and nx.value.func.attr == 'write' and U(nx.value.func.value) == U(n.func.value) and nx.value.args:
                        codec, fmt, val = codec_of(nx.value.args[0], C, None)
                        w = struct.calcsize(fmt) if fmt else None
                        patches.append(Slot('patch', f, nx.value, off, off + w if w else off, codec, fmt, val,
                                            U(n.func.value), nx))
        # loads from self.headerbytes
        for n in ast.walk(f.node):
            if isinstance(n, ast.Subscript) and isinstance(n.ctx, ast.Load) and isinstance(n.slice, ast.Slice) and \
                    any(U(n.value).endswith(mk) for mk in HEADER_BUF_MARKERS):
                envs = [None]
                lo, hi = const_eval(P, f.module, n.slice.lower, f), const_eval(P, f.module, n.slice.upper, f)
                if lo is None or hi is None:
                    # bounds driven by a comprehension / loop variable over a literal tuple of constants:
                    # one load per value
                    q = parent(n)
                    gen = None
                    while q is not None and q is not f.node:
                        if isinstance(q, (ast.GeneratorExp, ast.ListComp)) and len(q.generators) == 1:
                            gen = (q.generators[0].target, q.generators[0].iter)
                            break
                        if isinstance(q, ast.For):
                            gen = (q.target, q.iter)
                            break
                        q = parent(q)
                    if gen is None or not isinstance(gen[1], (ast.Tuple, ast.List)):
                        continue
                    envs = []
                    for item in gen[1].elts:
                        if isinstance(gen[0], ast.Name) and isinstance(item, ast.Constant) and isinstance(item.value, int):
                            envs.append({gen[0].id: item.value})
                        elif isinstance(gen[0], ast.Tuple) and isinstance(item, ast.Tuple) and len(item.elts) == len(gen[0].elts) and \
                                all(isinstance(x, ast.Constant) and isinstance(x.value, int) for x in item.elts):
                            envs.append({U(t): x.value for t, x in zip(gen[0].elts, item.elts)})
                    if not envs:
                        continue
                for env_ in envs:
                    if env_ is not None:
                        lo = const_eval(P, f.module, n.slice.lower, f, 0, env_)
                        hi = const_eval(P, f.module, n.slice.upper, f, 0, env_)
                        if lo is None or hi is None:
                            continue
                    p = parent(n)
                    codec, fmt = 'raw', None
                    whole = n
                    if isinstance(p, ast.Call) and n in p.args:
                        nm = U(p.func).split('.')[-1]
                        if nm in C:
                            codec = nm
                            fmt = C[nm].fmt_for(hi - lo)
                            whole = p
                        elif U(p.func) == 'struct.unpack' and p.args and isinstance(p.args[0], ast.Constant):
                            codec, fmt, whole = 'struct.unpack', p.args[0].value, p
                        elif nm in ('bytearray', 'bytes'):
                            codec = 'raw'
                    elif isinstance(p, ast.Attribute) and p.attr == 'hex':
                        codec = 'raw'
                    loads.append(Slot('load', f, n, lo, hi, codec, fmt, whole, U(n.value), enclosing_stmt(n)))
    return stores, patches, loads


def codec_of(value, C, width):
    """(codec name, struct format, encoded expression) of a value written into a header buffer."""
    if isinstance(value, ast.Call):
        nm = U(value.func).split('.')[-1]
        if nm in C and value.args:
            fm = C[nm].fmts
            fmt = fm.get(width) if width in fm else (list(fm.values())[0] if len(fm) == 1 else None)
            return nm, fmt, value.args[0]
        if U(value.func) == 'struct.pack' and value.args and isinstance(value.args[0], ast.Constant):
            return 'struct.pack', value.args[0].value, value.args[1] if len(value.args) > 1 else None
    return 'raw', None, value


# ---------------------------------------------------------------------------
# specification table
# ---------------------------------------------------------------------------

class SpecRow:
    def __init__(self, lo, hi, typ, text, line):
        self.lo, self.hi, self.typ, self.text, self.line = lo, hi, typ, text, line

    @property
    def unused(self):
        return 'unused' in self.text.lower()

    def __repr__(self):
        return '<spec %d:%d %s %r>' % (self.lo, self.hi, self.typ, self.text[:30])


def spec_rows(P):
    path = os.path.join(P.repo, 'docs', 'file-specification.md')
    if not os.path.exists(path):
        raise AnalysisError('docs/file-specification.md not found')
    rows = []
    with open(path, encoding='utf-8') as f:
        for i, line in enumerate(f, 1):
            m = re.match(r'^\|\s*(\d+)\s*[-–]\s*(\d+)\s*\|([^|]*)\|(.*)$', line)
            if m:
                lo, hi = int(m.group(1)), int(m.group(2)) + 1
                rows.append(SpecRow(lo, hi, m.group(3).strip(), m.group(4).strip().rstrip('|').strip(), i))
    if len(rows) < 24:
        raise AnalysisError('specification table has %d rows, expected at least 24' % len(rows))
    return rows


ROLE_PATTERNS = [
    (r'blocks of header', ('HEADER_BLOCKS', None)),
    (r'samples per trace', ('COUNT', 'Z')),
    (r'number of crosslines', ('COUNT', 'XL')),
    (r'number of inlines', ('COUNT', 'IL')),
    (r'minimum sample', ('ORIGIN', 'Z')),
    (r'minimum crossline', ('ORIGIN', 'XL')),
    (r'minimum inline', ('ORIGIN', 'IL')),
    (r'sample interval', ('STEP', 'Z')),
    (r'crossline interval', ('STEP', 'XL')),
    (r'inline interval', ('STEP', 'IL')),
    (r'bits-per-voxel', ('RATE', None)),
    (r'blockshape: il', ('BLOCKSHAPE', 'IL')),
    (r'blockshape: xl', ('BLOCKSHAPE', 'XL')),
    (r'blockshape: trace', ('BLOCKSHAPE', 'Z')),
    (r'disk blocks for data', ('DATA_BLOCKS', None)),
    (r'bytes for each header array', ('HEADER_ARRAY_BYTES', None)),
    (r'number of header arrays', ('HEADER_ARRAY_COUNT', None)),
    (r'number of traces', ('TRACECOUNT', None)),
    (r'version', ('VERSION', None)),
    (r'source format', ('SOURCE', None)),
    (r'header-detection', ('DETECTION', None)),
    (r'hash', ('HASH', None)),
    (r'default trace header values', ('TABLE', None)),
    (r'textual header', ('SEGY_TEXT', None)),
    (r'binary header', ('SEGY_BIN', None)),
]


def role_of_row(row):
    t = row.text.lower()
    for pat, role in ROLE_PATTERNS:
        if re.search(pat, t):
            return role
    return None


def spec_type(row):
    t = row.typ.lower()
    if t == 'uint32':
        return ('little', 'uint', 4)
    if t == 'int32':
        return ('little', 'int', 4)
    if t == 'float64':
        return ('little', 'float', 8)
    return None


# ---------------------------------------------------------------------------
_TF_MAP = None


def tracefield_map():
    """{name: byte position} of segyio.TraceField, read from the installed segyio source (parsed, not imported)."""
    global _TF_MAP
    if _TF_MAP is None:
        _TF_MAP = {}
        import sys
        bases = ['/venv/lib/python3.12/site-packages', '/venv/lib/python3.11/site-packages'] + [p for p in sys.path if p.endswith('site-packages')]
        for base in bases:
            p = os.path.join(base, 'segyio', 'tracefield.py')
            if os.path.exists(p):
                t = ast.parse(open(p).read())
                for c in ast.walk(t):
                    if isinstance(c, ast.ClassDef) and c.name == 'TraceField':
                        for st in c.body:
                            if isinstance(st, ast.Assign) and isinstance(st.value, ast.Constant) and isinstance(st.value.value, int) \
                                    and isinstance(st.targets[0], ast.Name):
                                _TF_MAP[st.targets[0].id] = st.value.value
                break
    return _TF_MAP


def tracefield_code(P, f, e, depth=0):
    """byte position named by a header-word expression: an integer literal, segyio.TraceField.<NAME> (any dotted
    spelling), TraceField(<code>), or a local / module constant bound once to one of those.  None if unknown."""
    if e is None or depth > 4:
        return None
    if isinstance(e, ast.Constant) and isinstance(e.value, int) and not isinstance(e.value, bool):
        return e.value
    if isinstance(e, ast.Attribute) and isinstance(e.value, (ast.Attribute, ast.Name)) and U(e.value).split('.')[-1] == 'TraceField':
        return tracefield_map().get(e.attr)
    if isinstance(e, ast.Call) and U(e.func).split('.')[-1] == 'TraceField' and len(e.args) == 1:
        return tracefield_code(P, f, e.args[0], depth + 1)
    if isinstance(e, ast.Name):
        if f is not None and e.id not in f.params:
            ds = [n for n in ast.walk(f.node) if isinstance(n, ast.Assign) and len(n.targets) == 1 and U(n.targets[0]) == e.id]
            if len(ds) == 1:
                return tracefield_code(P, f, ds[0].value, depth + 1)
        if f is not None:
            node = f.module.const_nodes.get(e.id)
            if node is not None:
                return tracefield_code(P, None, node, depth + 1)
    return None
