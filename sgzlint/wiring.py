"""Reader wiring: which header slot each size attribute of the reader holds, and where those attributes go.

The index algebra (model.py) and the footer algebra (footer.py) name the reader's quantities by attribute
(`n_header_blocks`, `compressed_data_diskblocks`, `header_entry_length_bytes`, `padded_header_entry_length_bytes`,
`data_start_bytes`) and assume that an attribute of the loader with the same name holds the same value.  The rules
here discharge those assumptions from the source:

  attr_roles      def-use from each decoded size slot of the file header (role from docs/file-specification.md) through
                  locals, returned tuples and tuple-unpacking to the attribute of SgzReader that receives it;
  footer_location the offset given to header array j in HeaderwordInfo.get_header_dict normalises to
                      512*HEADER_BLOCKS + 512*DATA_BLOCKS + j*stride
                  with the parameters bound, at every call site, to the attributes of those roles, and j the number of
                  arrays already located (a list that grows by one exactly where an offset is handed out);
  same_name_ctor  every constructor call from a reader class to a loader class passes `self.<p>` (or, for the
                  documented exceptions, an expression of known meaning) for parameter <p>, and the constructor stores
                  parameter <p> in attribute <p> unchanged.
"""
import ast
from .core import U, AnalysisError, parent, enclosing_stmt
from .algebra import Poly, C, A
from . import tables as TB

SIZE_ROLES = ('HEADER_BLOCKS', 'DATA_BLOCKS', 'HEADER_ARRAY_BYTES', 'HEADER_ARRAY_COUNT', 'TRACECOUNT')


def _self_attr(f, t):
    selfname = f.params[0] if f.params else 'self'
    if isinstance(t, ast.Attribute) and isinstance(t.value, ast.Name) and t.value.id == selfname:
        return t.attr
    return None


def _local_defs(f, name):
    out = []
    for n in ast.walk(f.node):
        if isinstance(n, ast.Assign):
            for t in n.targets:
                for x in ast.walk(t):
                    if isinstance(x, ast.Name) and x.id == name:
                        out.append(n)
        elif isinstance(n, (ast.AugAssign, ast.AnnAssign)) and isinstance(n.target, ast.Name) and n.target.id == name:
            out.append(n)
        elif isinstance(n, (ast.For, ast.comprehension)):
            for x in ast.walk(n.target):
                if isinstance(x, ast.Name) and x.id == name:
                    out.append(n)
    return out


def attr_roles(ht):
    """{attr: (role, slot)} for the size slots; raises AnalysisError when a decoded size slot cannot be followed."""
    P, G = ht.P, ht.G
    rd = P.cls('read.SgzReader')
    out = {}
    seen_roles = {}
    for s in ht.loads:
        if s.func.cls is None or s.func.cls not in rd.mro and rd not in s.func.cls.mro:
            continue
        row, prob = ht.row_of(s)
        if row is None:
            continue
        role = TB.role_of_row(row)
        if role is None or role[0] not in SIZE_ROLES:
            continue
        role = role[0]
        if s.codec in (None, 'raw'):
            continue   # raw comparison of the bytes (format sniffing), not a decoded value
        dests = _destinations(P, G, s.func, s.value)
        if not dests:
            raise AnalysisError('cannot follow headerbytes[%d:%d] (%s) in %s to an attribute of the reader' % (
                s.lo, s.hi, role, s.func.qualname))
        for (f, attr, stmt) in dests:
            if attr in out and out[attr][0] != role:
                raise AnalysisError('attribute %s receives both %s and %s' % (attr, out[attr][0], role))
            out[attr] = (role, s, f, stmt)
            seen_roles.setdefault(role, set()).add(attr)
    return out


def _destinations(P, G, f, expr, depth=0):
    """attributes of self that receive the value of ``expr`` (an expression node inside f) unchanged."""
    if depth > 3:
        return []
    p = parent(expr)
    # transparent wrappers: int(x)
    while isinstance(p, ast.Call) and U(p.func) == 'int' and len(p.args) == 1:
        expr, p = p, parent(p)
    if isinstance(p, ast.Assign) and p.value is expr and len(p.targets) == 1:
        t = p.targets[0]
        a = _self_attr(f, t)
        if a is not None:
            return [(f, a, p)]
        if isinstance(t, ast.Name):
            return _local_flow(P, G, f, t.id, depth)
        return []
    if isinstance(p, ast.Tuple) and isinstance(parent(p), ast.Assign) and parent(p).value is p and \
            len(parent(p).targets) == 1 and isinstance(parent(p).targets[0], (ast.Tuple, ast.List)) and \
            len(parent(p).targets[0].elts) == len(p.elts):
        # a, b, c = (x, y, z): element-wise
        t = parent(p).targets[0].elts[p.elts.index(expr)]
        a = _self_attr(f, t)
        if a is not None:
            return [(f, a, parent(p))]
        if isinstance(t, ast.Name):
            return _local_flow(P, G, f, t.id, depth)
        return []
    if isinstance(p, ast.Return) and p.value is expr:
        return _through_return(P, G, f, None, 1, depth)
    if isinstance(p, ast.Tuple) and isinstance(parent(p), ast.Return):
        return _through_return(P, G, f, p.elts.index(expr), len(p.elts), depth)
    return []


def _local_flow(P, G, f, name, depth):
    if len(_local_defs(f, name)) != 1:
        return []
    out = []
    for n in ast.walk(f.node):
        if isinstance(n, ast.Name) and n.id == name and isinstance(n.ctx, ast.Load):
            out.extend(_destinations(P, G, f, n, depth + 1))
    return out


def _through_return(P, G, f, index, arity, depth):
    rets = [n for n in ast.walk(f.node) if isinstance(n, ast.Return)]
    if len(rets) != 1:
        return []
    out = []
    for e in G.callers(f):
        call = e.call
        p = parent(call)
        if not (isinstance(p, ast.Assign) and p.value is call and len(p.targets) == 1):
            continue
        t = p.targets[0]
        if index is None:
            a = _self_attr(e.caller, t)
            if a is not None:
                out.append((e.caller, a, p))
            elif isinstance(t, ast.Name):
                out.extend(_local_flow(P, G, e.caller, t.id, depth + 1))
        elif isinstance(t, (ast.Tuple, ast.List)) and len(t.elts) == arity:
            el = t.elts[index]
            a = _self_attr(e.caller, el)
            if a is not None:
                out.append((e.caller, a, p))
            elif isinstance(el, ast.Name):
                out.extend(_local_flow(P, G, e.caller, el.id, depth + 1))
    return out


# ---------------------------------------------------------------------------
class _Ev:
    """integer expression -> Poly over parameter atoms `p:<name>`, `len:<list>` and constants."""
    def __init__(self, P, f):
        self.P, self.f = P, f

    def ev(self, e):
        if isinstance(e, ast.Constant) and isinstance(e.value, int) and not isinstance(e.value, bool):
            return C(e.value)
        if isinstance(e, ast.Name):
            if e.id in self.f.params:
                if _local_defs(self.f, e.id):
                    return None
                return A('p:' + e.id)
            v = self.P.const_value(self.f.module, e.id)
            if isinstance(v, int) and not isinstance(v, bool):
                return C(v)
            defs = _local_defs(self.f, e.id)
            if len(defs) == 1 and isinstance(defs[0], ast.Assign) and isinstance(defs[0].targets[0], ast.Name):
                return self.ev(defs[0].value)
            if _is_counter(defs):
                return A('cnt:' + e.id)
            acc = _accumulator_step(defs)
            if acc is not None:
                # running total: starts at 0 and grows by a fixed amount per located array  ->  j * amount
                step = self.ev(acc)
                if step is not None and not any(str(a).startswith(('cnt:', 'len:')) for a in step.atoms()):
                    return A('cnt:' + e.id) * step
            return None
        if isinstance(e, ast.Call) and U(e.func) == 'len' and len(e.args) == 1 and isinstance(e.args[0], ast.Name):
            return A('len:' + e.args[0].id)
        if isinstance(e, ast.Call) and U(e.func) == 'int' and len(e.args) == 1:
            return self.ev(e.args[0])
        if isinstance(e, ast.BinOp):
            l, r = self.ev(e.left), self.ev(e.right)
            if l is None or r is None:
                return None
            if isinstance(e.op, ast.Add):
                return l + r
            if isinstance(e.op, ast.Sub):
                return l - r
            if isinstance(e.op, ast.Mult):
                return l * r
            return None
        return None


def _is_counter(defs):
    """definitions of a counter: `c = 0` once and `c += 1` once"""
    init = [d for d in defs if isinstance(d, ast.Assign) and isinstance(d.value, ast.Constant) and d.value.value == 0
            and not isinstance(d.value.value, bool)]
    incs = [d for d in defs if isinstance(d, ast.AugAssign) and isinstance(d.op, ast.Add) and
            isinstance(d.value, ast.Constant) and d.value.value == 1]
    return len(defs) == 2 and len(init) == 1 and len(incs) == 1


def _accumulator_step(defs):
    """`t = 0` once and `t += <expr>` once: the expression added, else None"""
    init = [d for d in defs if isinstance(d, ast.Assign) and isinstance(d.value, ast.Constant) and d.value.value == 0
            and not isinstance(d.value.value, bool)]
    incs = [d for d in defs if isinstance(d, ast.AugAssign) and isinstance(d.op, ast.Add)]
    if len(defs) == 2 and len(init) == 1 and len(incs) == 1:
        return incs[0].value
    return None


def _counter_discipline(f, name, grant_stmt):
    """the counter is incremented once, after the offset is handed out, in the same block."""
    defs = _local_defs(f, name)
    if not _is_counter(defs) and _accumulator_step(defs) is None:
        return '`%s` is not a counter (one `= 0`, one `+= 1`)' % name
    inc = [d for d in defs if isinstance(d, ast.AugAssign)][0]
    init = [d for d in defs if isinstance(d, ast.Assign)][0]
    body = _block_of(grant_stmt)
    if inc not in body or body.index(inc) <= body.index(grant_stmt):
        return '`%s` is not incremented right after the offset is handed out' % name
    # initialised outside every loop that contains the grant
    p = parent(init)
    if not isinstance(p, (ast.FunctionDef, ast.AsyncFunctionDef)):
        return '`%s` is not initialised at function level' % name
    return []


def _list_discipline(f, name, grant_stmt):
    """``name`` counts the offsets handed out so far: it starts empty, grows by one append in the block of
    ``grant_stmt`` after it, and is not otherwise modified.  Returns a reason string when this fails."""
    defs = _local_defs(f, name)
    if len(defs) != 1 or not isinstance(defs[0], ast.Assign) or not (
            isinstance(defs[0].value, ast.List) and not defs[0].value.elts or
            (isinstance(defs[0].value, ast.Call) and U(defs[0].value.func) == 'list' and not defs[0].value.args)):
        return '`%s` is not initialised to an empty list exactly once' % name
    muts = []
    for n in ast.walk(f.node):
        if isinstance(n, ast.Call) and isinstance(n.func, ast.Attribute) and isinstance(n.func.value, ast.Name) and \
                n.func.value.id == name and n.func.attr in ('append', 'extend', 'insert', 'pop', 'remove', 'clear',
                                                             'sort', 'reverse', '__iadd__'):
            muts.append(n)
        if isinstance(n, (ast.Delete,)) and any(name in U(t) for t in n.targets):
            muts.append(n)
        if isinstance(n, ast.Subscript) and isinstance(n.ctx, (ast.Store, ast.Del)) and U(n.value) == name:
            muts.append(n)
    body = _block_of(grant_stmt)
    here = [m for m in muts if isinstance(m, ast.Call) and m.func.attr == 'append' and len(m.args) == 1 and
            enclosing_stmt(m) in body and body.index(enclosing_stmt(m)) > body.index(grant_stmt)]
    if len(here) != 1:
        return '`%s` does not grow by exactly one element after the offset is handed out' % name
    # other mutations are allowed only in sibling blocks that hand out an offset themselves (handled per grant)
    other = [m for m in muts if m is not here[0]]
    return other


def _block_of(stmt):
    p = parent(stmt)
    for field in ('body', 'orelse', 'finalbody'):
        b = getattr(p, field, None)
        if isinstance(b, list) and stmt in b:
            return b
    return []


def footer_location(ctx, ht, rule):
    P, G = ht.P, ht.G
    ghd = P.func('headers.HeaderwordInfo.get_header_dict')
    roles = attr_roles(ht)
    dsk = P.const_value(P.modules['sgzconstants'], 'DISK_BLOCK_BYTES')
    if not isinstance(dsk, int):
        raise AnalysisError('DISK_BLOCK_BYTES is not a literal constant')
    grants = [n for n in ast.walk(ghd.node) if isinstance(n, ast.Call) and U(n.func).split('.')[-1] == 'FileOffset']
    if not grants:
        raise AnalysisError('get_header_dict no longer creates FileOffset values')
    # ---- call sites: parameter -> meaning
    callers = [e for e in G.callers(ghd)]
    if not callers:
        raise AnalysisError('get_header_dict has no resolved caller')
    rd_init = P.func('read.SgzReader.__init__')
    meanings = []
    for e in callers:
        m = {}
        for p_, a in e.binding.items():
            attr = _self_attr(e.caller, a)
            if attr is None:
                m[p_] = ('?', U(a))
            elif attr in roles:
                m[p_] = ('ROLE', roles[attr][0])
            elif attr == 'padded_header_entry_length_bytes':
                # defined by the reader from the attribute of role HEADER_ARRAY_BYTES (footer.reader_stride normalises it)
                stores = P.attr_stores_mro(e.caller.cls, attr)
                src = set()
                for (sf, sn, sv) in stores:
                    for x in ast.walk(sv):
                        a2 = _self_attr(sf, x)
                        if a2 is not None:
                            src.add(a2)
                if not stores or any(roles.get(x, ('',))[0] != 'HEADER_ARRAY_BYTES' for x in src) or not src:
                    m[p_] = ('?', 'self.%s (derived from %s)' % (attr, sorted(src)))
                else:
                    m[p_] = ('STRIDE', None)
            else:
                m[p_] = ('?', 'self.' + attr)
        meanings.append((e, m))
    HB, DB, J, ST = A('HEADER_BLOCKS'), A('DATA_BLOCKS'), A('j'), A('STRIDE')
    want = dsk * HB + dsk * DB + J * ST
    for g in grants:
        st = enclosing_stmt(g)
        if len(g.args) != 1:
            raise AnalysisError('FileOffset(..) takes %d arguments' % len(g.args))
        v = _Ev(P, ghd).ev(g.args[0])
        if v is None:
            raise AnalysisError('cannot normalise the footer offset `%s`' % U(g.args[0])[:90])
        lens = sorted(a for a in v.atoms() if str(a).startswith('len:') or str(a).startswith('cnt:'))
        if len(lens) != 1:
            ctx.fail(rule, ghd, st, 'the offset handed to a stored header array `%s` does not depend on the number of '
                     'arrays already located (or on more than one counter): every array, or none, would be read from the '
                     'same place' % U(g.args[0])[:80], line=g.lineno)
            continue
        lname = str(lens[0])[4:]
        prob = _list_discipline(ghd, lname, st) if str(lens[0]).startswith('len:') else _counter_discipline(ghd, lname, st)
        if isinstance(prob, str):
            ctx.fail(rule, ghd, st, 'array index of the footer offset: %s' % prob, line=g.lineno)
            continue
        if prob:
            ctx.fail(rule, ghd, enclosing_stmt(prob[0]), '`%s` (the count of arrays located so far) is also modified at '
                     '`%s`' % (lname, U(enclosing_stmt(prob[0]))[:60]), line=prob[0].lineno)
            continue
        for (e, m) in meanings:
            sub = {}
            bad = None
            for a in v.atoms():
                a = str(a)
                if a.startswith('len:') or a.startswith('cnt:'):
                    sub[a] = J
                elif a.startswith('p:'):
                    mm = m.get(a[2:])
                    if mm is None:
                        bad = 'parameter %s is not passed by %s' % (a[2:], e.caller.qualname)
                    elif mm[0] == 'ROLE' and mm[1] in ('HEADER_BLOCKS', 'DATA_BLOCKS'):
                        sub[a] = A(mm[1])
                    elif mm[0] == 'STRIDE':
                        sub[a] = ST
                    elif mm[0] == 'ROLE':
                        sub[a] = A(mm[1])
                    else:
                        raise AnalysisError('argument `%s` of get_header_dict in %s has no known meaning' % (
                            mm[1], e.caller.qualname))
            if bad:
                raise AnalysisError(bad)
            got = v.subst(sub)
            label = '%s <- %s' % (U(g.args[0])[:50].replace('\n', ' '), e.caller.name)
            if got == want:
                ctx.ok(rule, ghd, label, 'offset of array j = %d*(header blocks + data blocks) + j*stride, bound to the '
                       'slots of those roles' % dsk, sample={'normal_form': repr(got)})
            else:
                ctx.fail(rule, ghd, st, 'with the arguments of %s the offset of stored header array j normalises to %r, '
                         'not to %r: the reader would look for the arrays where no writer puts them' % (
                             e.caller.qualname, got, want), line=g.lineno, key_extra=e.caller.qualname)
    # ---- the count check uses the slot of that role
    for n in ast.walk(ghd.node):
        if isinstance(n, ast.Assert):
            for (e, m) in meanings:
                names = [x.id for x in ast.walk(n.test) if isinstance(x, ast.Name) and x.id in ghd.params]
                for nm in names:
                    mm = m.get(nm)
                    if mm is None:
                        continue
                    if mm == ('ROLE', 'HEADER_ARRAY_COUNT'):
                        ctx.ok(rule, ghd, 'assert .. == %s <- %s' % (nm, e.caller.name), 'count check uses the stated '
                               'number of header arrays')
                    else:
                        ctx.fail(rule, ghd, n, 'the array-count check compares with `%s`, which %s passes as %s' % (
                            nm, e.caller.qualname, mm[1]), line=n.lineno, key_extra=e.caller.qualname)
    return roles


def size_attr_uses(ctx, ht, rule, roles):
    """consumers of the size attributes inside the reader: data_start = 512*HEADER_BLOCKS; header array reads take
    HEADER_ARRAY_BYTES bytes at a FileOffset."""
    P, G = ht.P, ht.G
    rd = P.cls('read.SgzReader')
    dsk = P.const_value(P.modules['sgzconstants'], 'DISK_BLOCK_BYTES')
    by_role = {}
    for a, r in roles.items():
        by_role.setdefault(r[0], []).append(a)
    for need in ('HEADER_BLOCKS', 'DATA_BLOCKS', 'HEADER_ARRAY_BYTES', 'HEADER_ARRAY_COUNT'):
        if len(by_role.get(need, [])) != 1:
            raise AnalysisError('role %s is held by attributes %s (expected exactly one)' % (need, by_role.get(need)))
        attr = by_role[need][0]
        stores = P.attr_stores_mro(rd, attr)
        if len(stores) != 1:
            # every store must be the decoded slot itself
            extra = [s for s in stores if s[1] is not roles[attr][3]]

            def zero_fallback(sn):
                # `if self.<attr> == 0: self.<attr> = ..`: the value of a file that does not carry the field
                q = parent(sn)
                return isinstance(q, ast.If) and isinstance(q.test, ast.Compare) and len(q.test.ops) == 1 and \
                    isinstance(q.test.ops[0], ast.Eq) and U(q.test.left) == 'self.' + attr and U(q.test.comparators[0]) == '0' \
                    and sn in q.body
            extra = [s for s in extra if not zero_fallback(s[1])]
            for (sf, sn, sv) in extra:
                ctx.fail(rule, sf, sn, 'self.%s (the %s slot of the header) is re-assigned' % (attr, need), line=sn.lineno)
        ctx.ok(rule, roles[attr][2], 'self.%s <- headerbytes[%d:%d]' % (attr, roles[attr][1].lo, roles[attr][1].hi),
               'attribute holds the %s slot' % need)
    hb = by_role['HEADER_BLOCKS'][0]
    # data_start_bytes
    stores = P.attr_stores_mro(rd, 'data_start_bytes')
    if not stores:
        raise AnalysisError('SgzReader no longer assigns data_start_bytes')
    for (sf, sn, sv) in stores:
        v = _attr_poly(P, sf, sv)
        if v is None:
            raise AnalysisError('cannot normalise data_start_bytes = `%s`' % U(sv)[:60])
        if v == dsk * A('self.' + hb):
            ctx.ok(rule, sf, 'data_start_bytes = %s' % U(sv)[:40], 'data section starts after the header blocks')
        else:
            ctx.fail(rule, sf, sn, 'data_start_bytes = `%s` normalises to %r, not to %d * header blocks' % (
                U(sv)[:50], v, dsk), line=sn.lineno)


def _attr_poly(P, f, e):
    if isinstance(e, ast.Constant) and isinstance(e.value, int) and not isinstance(e.value, bool):
        return C(e.value)
    a = _self_attr(f, e)
    if a is not None:
        return A('self.' + a)
    if isinstance(e, ast.Name):
        v = P.const_value(f.module, e.id)
        return C(v) if isinstance(v, int) and not isinstance(v, bool) else None
    if isinstance(e, ast.BinOp) and isinstance(e.op, (ast.Add, ast.Sub, ast.Mult)):
        l, r = _attr_poly(P, f, e.left), _attr_poly(P, f, e.right)
        if l is None or r is None:
            return None
        return l + r if isinstance(e.op, ast.Add) else l - r if isinstance(e.op, ast.Sub) else l * r
    return None


# ---------------------------------------------------------------------------
def same_name_ctor(ctx, P, G, rule, caller_classes, target_base, exceptions=None):
    """every ctor edge from a method of ``caller_classes`` to a subclass of ``target_base``: parameter p receives
    `self.p` (same name) and the constructor stores it in attribute p unchanged."""
    exceptions = exceptions or {}
    tcls = [target_base] + target_base.all_subclasses()
    n = 0
    for c in caller_classes:
        for f in c.methods.values() if hasattr(c, 'methods') else []:
            for e in G.callees(f):
                if e.kind != 'ctor' or e.target is None or e.target.cls not in [x for t in tcls for x in t.mro]:
                    continue
                if not any(t.name == U(e.call.func).split('.')[-1] for t in tcls):
                    continue
                n += 1
                init = e.target
                for p_, a in e.binding.items():
                    attr = _self_attr(f, a)
                    if p_ in exceptions:
                        ok = exceptions[p_](f, a)
                        if ok:
                            ctx.ok(rule, f, '%s(%s=%s)' % (U(e.call.func), p_, U(a)[:30]), 'documented pass-through', nontrivial=False)
                        else:
                            ctx.fail(rule, f, enclosing_stmt(e.call), 'parameter %s of %s receives `%s`' % (p_, init.qualname, U(a)[:40]),
                                     line=a.lineno, key_extra=p_)
                        continue
                    if attr != p_:
                        ctx.fail(rule, f, enclosing_stmt(e.call), 'parameter `%s` of %s receives `%s`: the loader would compute '
                                 'addresses with a different quantity than the reader' % (p_, init.qualname, U(a)[:40]),
                                 line=a.lineno, key_extra='%s:%s' % (U(e.call.func), p_))
                    else:
                        ctx.ok(rule, f, '%s(%s=self.%s)' % (U(e.call.func), p_, attr), 'same-name wiring')
                # the constructor stores each parameter under its own name, unchanged
                for p_ in e.binding:
                    if p_ in exceptions:
                        continue
                    stores = [(sf, sn, sv) for (sf, sn, sv) in P.attr_stores_mro(init.cls, p_)]
                    if not stores:
                        continue   # parameter only consumed in the constructor
                    for (sf, sn, sv) in stores:
                        if sf is init and isinstance(sv, ast.Name) and sv.id == p_ and not _local_defs(init, p_):
                            ctx.ok(rule, init, 'self.%s = %s' % (p_, p_), 'stored unchanged', nontrivial=False)
                        else:
                            ctx.fail(rule, sf, sn, 'loader attribute `%s` is assigned `%s`, not the constructor parameter of '
                                     'that name' % (p_, U(sv)[:40]), line=sn.lineno, key_extra=p_)
    return n


def count_expr_text(P):
    """text of the expression that counts the located arrays in get_header_dict: 'len(<list>)' or '<counter>'"""
    ghd = P.func('headers.HeaderwordInfo.get_header_dict')
    for g in ast.walk(ghd.node):
        if isinstance(g, ast.Call) and U(g.func).split('.')[-1] == 'FileOffset' and len(g.args) == 1:
            v = _Ev(P, ghd).ev(g.args[0])
            if v is None:
                continue
            for a in v.atoms():
                a = str(a)
                if a.startswith('len:'):
                    return 'len(%s)' % a[4:]
                if a.startswith('cnt:'):
                    return a[4:]
    return None


def grant_counters(P):
    """texts of expressions that count the located arrays in get_header_dict: len(<list>) for a list that is appended to
    once in the block that hands out an offset, <counter> for a counter incremented by one there."""
    ghd = P.func('headers.HeaderwordInfo.get_header_dict')
    out = set()
    for g in ast.walk(ghd.node):
        if isinstance(g, ast.Call) and U(g.func).split('.')[-1] == 'FileOffset' and len(g.args) == 1:
            st = enclosing_stmt(g)
            blk = _block_of(st)
            for x in blk[blk.index(st) + 1:] if st in blk else []:
                if isinstance(x, ast.Expr) and isinstance(x.value, ast.Call) and isinstance(x.value.func, ast.Attribute) and \
                        x.value.func.attr == 'append' and isinstance(x.value.func.value, ast.Name):
                    nm = x.value.func.value.id
                    if not isinstance(_list_discipline(ghd, nm, st), str) and not _list_discipline(ghd, nm, st):
                        out.add('len(%s)' % nm)
                if isinstance(x, ast.AugAssign) and isinstance(x.target, ast.Name) and _is_counter(_local_defs(ghd, x.target.id)):
                    if not _counter_discipline(ghd, x.target.id, st):
                        out.add(x.target.id)
    return out
