#!/bin/bash
# Developer helper (not a registered check): run quick checks against each behaviour-preserving refactoring in
# /verif/benign (scratch worktree of /repo HEAD + patch under /tmp/wt/b-<id>; removed afterwards unless KEEP=1),
# JOBS at a time.  All checks must stay silent.  usage: [KEEP=1] [PROPS="C02 C07"] tools/benign_check.sh [id ...]
cd /verif
IDS="$@"; [ -z "$IDS" ] && IDS=$(ls benign)
export PROPS=${PROPS:-all} KEEP WIDTH
one() {
  ID=$1
  V=/tmp/wt/b-$ID
  if [ ! -d $V ]; then
    git -C /repo worktree add --detach $V HEAD >/dev/null 2>&1 || { echo "$ID: cannot create worktree"; return; }
    if ! git -C $V apply /verif/benign/$ID/patch.diff 2>/dev/null; then echo "$ID: PATCH DOES NOT APPLY TO HEAD"; git -C /repo worktree remove --force $V; return; fi
  fi
  OUT=""
  for Pp in $PROPS; do OUT="$OUT
$(SGZ_REPO=$V SGZ_EVIDENCE_DIR=/tmp/ev-b-$ID ./check $Pp --tier quick 2>&1)"; done
  N=$(echo "$OUT" | grep -cE "^(FINDING|ANALYSIS-ERROR)")
  { echo "$ID: $N alarms"; echo "$OUT" | grep -E "^(FINDING|ANALYSIS-ERROR)" | cut -c1-${WIDTH:-260} | sed "s/^/$ID:   /"; }
  rm -rf /tmp/ev-b-$ID
  [ -z "$KEEP" ] && git -C /repo worktree remove --force $V >/dev/null 2>&1
}
export -f one
echo $IDS | tr ' ' '\n' | xargs -P ${JOBS:-8} -I{} bash -c 'one {}' 2>/dev/null | sort
