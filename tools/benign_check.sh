#!/bin/bash
# Developer helper (not a registered check): run quick checks against each behaviour-preserving refactoring in
# /verif/benign (scratch worktree of /repo HEAD + patch under /tmp/wt/b-<id>; removed afterwards unless KEEP=1).
# All checks must stay silent.  usage: [KEEP=1] [PROPS="C02 C07"] tools/benign_check.sh [id ...]
cd /verif
IDS="$@"; [ -z "$IDS" ] && IDS=$(ls benign)
PROPS=${PROPS:-all}
for ID in $IDS; do
  V=/tmp/wt/b-$ID
  if [ ! -d $V ]; then
    git -C /repo worktree add --detach $V HEAD >/dev/null 2>&1 || { echo "$ID: cannot create worktree"; continue; }
    if ! git -C $V apply /verif/benign/$ID/patch.diff 2>/dev/null; then echo "$ID: PATCH DOES NOT APPLY TO HEAD"; git -C /repo worktree remove --force $V; continue; fi
  fi
  OUT=""
  for Pp in $PROPS; do OUT="$OUT
$(SGZ_REPO=$V SGZ_EVIDENCE_DIR=/tmp/ev-b-$ID ./check $Pp --tier quick 2>&1)"; done
  N=$(echo "$OUT" | grep -cE "^(FINDING|ANALYSIS-ERROR)")
  echo "$ID: $N alarms"
  echo "$OUT" | grep -E "^(FINDING|ANALYSIS-ERROR)" | cut -c1-${WIDTH:-260}
  rm -rf /tmp/ev-b-$ID
  [ -z "$KEEP" ] && git -C /repo worktree remove --force $V >/dev/null 2>&1
done
