#!/bin/bash
# Developer helper (not a registered check): confirm a behaviour-preserving refactoring produced by a sub-agent, file it
# under /verif/benign/<id>/ and run every quick check against it (all must stay silent: exit 0, no new finding).
# usage: tools/benign_verify.sh <agent worktree> <id>          e.g. tools/benign_verify.sh /tmp/wt/benign-utils utils
set -u
SRC=$1; ID=$2
V=/tmp/wt/bverify-$ID
OUT=/verif/benign/$ID
git -C /repo worktree remove --force $V >/dev/null 2>&1
git -C /repo worktree add --detach $V HEAD >/dev/null 2>&1 || { echo "cannot create worktree"; exit 2; }
trap 'git -C /repo worktree remove --force $V >/dev/null 2>&1' EXIT
cd $V
git apply $SRC/_seed/patch.diff || { echo "PATCH DOES NOT APPLY"; exit 2; }
mkdir -p _seed && cp $SRC/_seed/equiv.py _seed/
PLAIN=$(/venv/bin/python -m pytest -q -p no:cacheprovider --timeout=900 --continue-on-collection-errors 2>&1 | tail -1)
SHIM=$(PYTHONPATH=/tmp/shim /venv/bin/python -m pytest -p vshim -q -p no:cacheprovider --timeout=900 --continue-on-collection-errors 2>&1 | tail -1)
PYTHONPATH=/tmp/shim:$V timeout 1200 /venv/bin/python _seed/equiv.py >/tmp/equiv-$ID.log 2>&1; EQ=$?
echo "plain: $PLAIN"; echo "shim:  $SHIM"; echo "equiv: exit $EQ ($(tail -1 /tmp/equiv-$ID.log | cut -c1-160))"
OK=yes
case "$PLAIN" in *"93 passed"*) ;; *) OK=no;; esac
case "$SHIM" in *"116 passed"*) ;; *) OK=no;; esac
[ "$EQ" = 0 ] || OK=no
echo "CONFIRMED=$OK"
if [ $OK = yes ]; then
  mkdir -p $OUT
  cp $SRC/_seed/patch.diff $OUT/patch.diff; cp $SRC/_seed/equiv.py $OUT/equiv.py
  /venv/bin/python - "$SRC/_seed/meta.json" "$OUT/meta.json" "$PLAIN" "$SHIM" "$EQ" <<'EOF'
import json, sys
src, dst, plain, shim, eq = sys.argv[1:6]
try:
    m = json.load(open(src))
except Exception:
    m = {}
m['confirmed_by_verifier'] = {
    'how': 'fresh scratch worktree of /repo HEAD, git apply patch.diff; pinned suite; suite under the version shim; '
           'equiv.py (refactored module vs module text of HEAD on the same inputs)',
    'pytest_plain_with_change': plain, 'pytest_shim_with_change': shim, 'equiv_exit': int(eq)}
json.dump(m, open(dst, 'w'), indent=1)
EOF
fi
cd /verif
echo "== checks against the refactored tree (all must be silent)"
SGZ_REPO=$V SGZ_EVIDENCE_DIR=/tmp/ev-b$ID ./check all --tier quick 2>&1 | grep -E "^(FINDING|VIOLATION|ANALYSIS-ERROR)" | cut -c1-400
rm -rf /tmp/ev-b$ID
