#!/venv/bin/python
"""Regenerate /verif/MANIFEST.json from the rule modules that exist (documentation helper, run by hand)."""
import importlib
import json
import os
import sys

HERE = os.path.dirname(os.path.dirname(os.path.abspath(__file__)))
sys.path.insert(0, HERE)

PENDING_REASON = 'check not built yet (static-analysis framework under construction; see DESIGN.md section 4)'

props = [json.loads(l) for l in open(os.path.join(HERE, 'properties.jsonl'))]
checks, na = [], []
for p in props:
    pid = p['id']
    try:
        mod = importlib.import_module('sgzlint.rules.' + pid.lower())
    except ModuleNotFoundError:
        na.append({'property_id': pid, 'reason': PENDING_REASON})
        continue
    if getattr(mod, 'NOT_APPLICABLE', None):
        na.append({'property_id': pid, 'reason': mod.NOT_APPLICABLE})
        continue
    checks.append({
        'property_id': pid,
        'quick_cmd': './check %s --tier quick' % pid,
        'thorough_cmd': './check %s --tier thorough' % pid,
        'evidence_file': 'evidence/%s.json' % pid,
        'replay_cmd_template': './check %s --replay {path}' % pid,
        'engine': 'sgzlint',
        'level_claimed': {
            'category': 'other',
            'text': getattr(mod, 'LEVEL_TEXT', None) or (
                'Static analysis of /repo\'s current source (no execution): the structural clauses listed in the '
                'evidence explanation are decided for every site of every anchor; each is a necessary condition of '
                'the property. The runtime behaviour itself is not decided. ' + mod.EXPLANATION),
            'design_ref': 'DESIGN.md section 4, %s' % pid,
        },
        'level_note': 'NOT DECIDED: ' + mod.NOT_DECIDED + ' ASSUMED: ' + '; '.join(mod.ASSUMPTIONS),
        'technique': getattr(mod, 'TECHNIQUE', 'static analysis: ast + resolved call graph + path-sensitive must-facts'),
    })

manifest = {
    'version': 1,
    'setup_cmd': '/venv/bin/python -c "import ast, sys; print(sys.version)"',
    'hooks': {
        'guard': 'SEISMIC_ZFP_VERIF',
        'enable': 'none needed: the checks are static, they read /repo\'s source and never import or run it; no '
                  'instrumentation exists in /repo',
        'baseline_off_cmd': 'cd /repo && /venv/bin/python -m pytest -ra -q -p no:cacheprovider --timeout=900 '
                            '--continue-on-collection-errors',
        'source_commits': [],
        'add_only': True,
    },
    'engines': [{
        'name': 'sgzlint',
        'path': 'sgzlint/',
        'serves_properties': [c['property_id'] for c in checks],
        'kind_free_text': 'repository-specific static analyser (Python ast): program index + resolved call graph, '
                          'path-sensitive must-fact walker, index algebra with mixed-radix digits, symbolic evaluator '
                          'of the loaders, header byte-table extraction, axis tags, pipeline typestate',
    }],
    'checks': checks,
    'not_applicable': na,
    'notes': 'Exit codes: 0 held (possibly KNOWN-FINDING lines), 1 VIOLATION, 2 ANALYSIS-ERROR (the analyser could not '
             'understand the code: vanished anchor / idiom outside the enumerated ones; never a verdict). '
             'known_findings.json lists recorded defects and the fix: commits made in /repo.',
}
with open(os.path.join(HERE, 'MANIFEST.json'), 'w') as f:
    json.dump(manifest, f, indent=1)
print('checks:', [c['property_id'] for c in checks])
print('not applicable / pending:', [x['property_id'] for x in na])
