#!/venv/bin/python
"""Developer helper (not a registered check): apply one textual edit to a scratch copy of /repo/seismic_zfp
and run the given checks against it.

usage: tools/mut.py FILE 'old text' 'new text' C07 [C02 ...]
"""
import os
import shutil
import subprocess
import sys
import tempfile

HERE = os.path.dirname(os.path.dirname(os.path.abspath(__file__)))


def run(file, old, new, props, repo='/repo'):
    d = tempfile.mkdtemp(prefix='sgzmut-')
    try:
        shutil.copytree(os.path.join(repo, 'seismic_zfp'), os.path.join(d, 'seismic_zfp'))
        shutil.copytree(os.path.join(repo, 'docs'), os.path.join(d, 'docs'))
        p = os.path.join(d, file)
        s = open(p).read()
        if old not in s:
            print('OLD TEXT NOT FOUND in', file)
            return 3
        s = s.replace(old, new, 1)
        open(p, 'w').write(s)
        compile(s, p, 'exec')
        env = dict(os.environ, SGZ_REPO=d, PYTHONPATH=HERE, PYTHONDONTWRITEBYTECODE='1', SGZ_EVIDENCE_DIR=os.path.join(d, 'ev'))
        rc = 0
        for pr in props:
            r = subprocess.run(['/venv/bin/python', '-m', 'sgzlint', pr], cwd=HERE, env=env, capture_output=True, text=True)
            lines = [l for l in r.stdout.splitlines() if l.startswith(('FINDING', 'ANALYSIS-ERROR', 'KNOWN'))]
            print('%s rc=%d %s' % (pr, r.returncode, '' if lines else '(silent)'))
            for l in lines[:6]:
                print('   ', l[:300])
            if r.returncode not in (0, 1, 2) or (r.returncode == 2 and not lines):
                print(r.stdout[-2000:], r.stderr[-2000:])
            rc = max(rc, r.returncode)
        return rc
    finally:
        shutil.rmtree(d, ignore_errors=True)


if __name__ == '__main__':
    sys.exit(run(sys.argv[1], sys.argv[2], sys.argv[3], sys.argv[4:]))
