#!/venv/bin/python
"""print the normal form of a function: tools/nf.py conversion_utils.numpy_producer [repo]"""
import sys, ast, os
sys.path.insert(0, '/verif')
os.environ['SGZ_NORM'] = '1'
if len(sys.argv) > 2:
    os.environ['SGZ_REPO'] = sys.argv[2]
from sgzlint.core import Program
P = Program(os.environ.get('SGZ_REPO'))
f = P.func(sys.argv[1])
print(ast.unparse(f.node))
