#!/bin/bash
# Developer helper: run all quick checks (optionally against SGZ_REPO) and print exit codes + compact findings
cd /verif
for p in 01 02 03 04 05 06 07 08 09 10 11 12 13 14 15 16 17 18 19 20; do ./check C$p --tier quick >/tmp/q-C$p.log 2>&1; echo -n "C$p:$? "; done; echo
grep -h "^ANALYSIS-ERROR" /tmp/q-C*.log | cut -c1-${WIDTH:-250}
grep -h "^FINDING" /tmp/q-C*.log | awk '{print $2,$3}' | sort | uniq -c
