#!/bin/bash
# Developer helper (not a registered check): run every quick check against each seeded change in /verif/seeded
# (scratch worktree of /repo HEAD + patch, outside /repo and /verif; removed afterwards), JOBS at a time.
# usage: tools/seed_check.sh [id ...]
cd /verif
IDS="$@"; [ -z "$IDS" ] && IDS=$(ls seeded)
one() {
  ID=$1
  V=/tmp/wt/seedchk-$ID
  git -C /repo worktree remove --force $V >/dev/null 2>&1
  git -C /repo worktree add --detach $V HEAD >/dev/null 2>&1 || { echo "$ID: cannot create worktree"; return; }
  if ! git -C $V apply /verif/seeded/$ID/patch.diff 2>/dev/null; then echo "$ID: PATCH DOES NOT APPLY TO HEAD"; git -C /repo worktree remove --force $V; return; fi
  OUT=$(SGZ_REPO=$V SGZ_EVIDENCE_DIR=/tmp/ev-$ID ./check all --tier quick 2>&1)
  V1=$(echo "$OUT" | grep -E "^VIOLATION" | sed -E 's/.*property=(C[0-9]+).*/\1/' | sort -u | tr '\n' ' ')
  R1=$(echo "$OUT" | grep -E "^FINDING" | awk '{print $2}' | sort -u | tr '\n' ' ')
  E1=$(echo "$OUT" | grep -E "^ANALYSIS-ERROR" | sed -E 's/.*property=(C[0-9]+).*/\1/' | sort -u | tr '\n' ' ')
  echo "$ID: violations: [${V1}] rules: [${R1}] analysis-errors: [${E1}]"
  [ -n "$VERBOSE" ] && echo "$OUT" | grep -E "^(FINDING|ANALYSIS-ERROR)" | cut -c1-400
  rm -rf /tmp/ev-$ID
  git -C /repo worktree remove --force $V >/dev/null 2>&1
}
export -f one
# worktree creation is serialised by git's own lock; the analysis runs in parallel
echo $IDS | tr ' ' '\n' | xargs -P ${JOBS:-8} -I{} bash -c 'one {}' 2>/dev/null | sort
