#!/bin/bash
# Developer helper (not a registered check): confirm a seeded change produced by a sub-agent and file it.
# usage: tools/seed_verify.sh <agent worktree> <seed id>       e.g. tools/seed_verify.sh /tmp/wt/C07a C07a
# 1. fresh scratch worktree of /repo HEAD (outside /repo and /verif), apply patch.diff
# 2. pinned suite (must be 93 passed) and shimmed suite (must be 116 passed)
# 3. demo must fail with the change and pass without it
# 4. copies patch.diff, demo, meta.json (+ what was run) to /verif/seeded/<id>/ ; removes the scratch worktree
# 5. runs every quick check against the changed tree (SGZ_REPO) and prints which fire
set -u
SRC=$1; ID=$2
V=/tmp/wt/verify-$ID
OUT=/verif/seeded/$ID
git -C /repo worktree remove --force $V >/dev/null 2>&1
git -C /repo worktree add --detach $V HEAD >/dev/null 2>&1 || { echo "cannot create worktree"; exit 2; }
trap 'git -C /repo worktree remove --force $V >/dev/null 2>&1' EXIT
cd $V
git apply $SRC/_seed/patch.diff || { echo "PATCH DOES NOT APPLY"; exit 2; }
DEMO=demo.py; [ -f $SRC/_seed/demo.py ] || DEMO=test_demo.py
mkdir -p _seed && cp $SRC/_seed/$DEMO _seed/
rundemo() {
  if [ $DEMO = demo.py ]; then PYTHONPATH=/tmp/shim:$V timeout 600 /venv/bin/python _seed/demo.py >/tmp/demo-$ID.log 2>&1; echo $?
  else PYTHONPATH=/tmp/shim:$V timeout 600 /venv/bin/python -m pytest -q -p vshim -p no:cacheprovider _seed/test_demo.py >/tmp/demo-$ID.log 2>&1; echo $?; fi
}
PLAIN=$(/venv/bin/python -m pytest -q -p no:cacheprovider --timeout=900 --continue-on-collection-errors 2>&1 | tail -1)
SHIM=$(PYTHONPATH=/tmp/shim /venv/bin/python -m pytest -p vshim -q -p no:cacheprovider --timeout=900 --continue-on-collection-errors 2>&1 | tail -1)
D1=$(rundemo); T1=$(tail -3 /tmp/demo-$ID.log | tr '\n' ' ' | cut -c1-300)
git apply -R $SRC/_seed/patch.diff
D0=$(rundemo)
git apply $SRC/_seed/patch.diff
echo "plain: $PLAIN"; echo "shim:  $SHIM"; echo "demo with change: exit $D1 ($T1)"; echo "demo without change: exit $D0"
OK=yes
case "$PLAIN" in *"93 passed"*) ;; *) OK=no;; esac
case "$SHIM" in *"116 passed"*) ;; *) OK=no;; esac
[ "$D1" != 0 ] && [ "$D0" = 0 ] || OK=no
echo "CONFIRMED=$OK"
if [ $OK = yes ]; then
  mkdir -p $OUT
  cp $SRC/_seed/patch.diff $OUT/patch.diff; cp $SRC/_seed/$DEMO $OUT/$DEMO
  /venv/bin/python - "$SRC/_seed/meta.json" "$OUT/meta.json" "$PLAIN" "$SHIM" "$D1" "$D0" "$DEMO" <<'EOF'
import json, sys
src, dst, plain, shim, d1, d0, demo = sys.argv[1:8]
try:
    m = json.load(open(src))
except Exception:
    m = {}
m['confirmed_by_verifier'] = {
    'how': 'fresh scratch worktree of /repo HEAD, git apply patch.diff; pinned suite; suite under the version shim '
           '(PYTHONPATH=/tmp/shim -p vshim; the shim is /verif/triage/vshim.py); demo with the change; git apply -R; demo without',
    'pytest_plain_with_change': plain, 'pytest_shim_with_change': shim,
    'demo_with_change_exit': int(d1), 'demo_without_change_exit': int(d0),
    'demo_cmd': 'cd <worktree> && PYTHONPATH=<dir of vshim.py>:<worktree> /venv/bin/python _seed/' + demo,
}
json.dump(m, open(dst, 'w'), indent=1)
EOF
fi
cd /verif
echo "== checks against the changed tree"
SGZ_REPO=$V SGZ_EVIDENCE_DIR=/tmp/ev-$ID ./check all --tier quick 2>&1 | grep -E "^(FINDING|VIOLATION|ANALYSIS-ERROR)" | cut -c1-330
rm -rf /tmp/ev-$ID
