#!/venv/bin/python
"""Developer helper (not a registered check): run the self-test variants of one or more properties verbosely.

usage: tools/st.py C07 [C02 ...] [-k substring]
"""
import os
import sys

HERE = os.path.dirname(os.path.dirname(os.path.abspath(__file__)))
sys.path.insert(0, HERE)
os.chdir(HERE)

from sgzlint import selftest  # noqa: E402
from sgzlint.core import REPO, load_known_findings  # noqa: E402


def main():
    args = sys.argv[1:]
    filt = None
    if '-k' in args:
        i = args.index('-k')
        filt = args[i + 1]
        del args[i:i + 2]
    rc = 0
    for prop in args:
        prop = prop.upper()
        vs = selftest.load_variants(prop)
        if filt:
            vs = [v for v in vs if filt in v.name]
        # baseline keys: whatever the unedited tree reports
        import tempfile, shutil
        d = tempfile.mkdtemp(prefix='sgzlint-st-')
        try:
            os.makedirs(os.path.join(d, 'x'))
            base = selftest._run_variant(prop, REPO) if False else None
        finally:
            shutil.rmtree(d, ignore_errors=True)
        kk = {k['key'] for k in load_known_findings().get('known', []) if k.get('property') == prop}
        res = selftest.run_variants(prop, vs, REPO, kk)
        for r in res:
            flag = '' if r['outcome'] in ('fired', 'silent') else '   <<<<<<<<'
            print('%s %-8s %-4s %s%s' % (prop, r['outcome'], r['kind'], r['variant'], flag))
            if r.get('why'):
                print('      why: %s' % r['why'])
            for f in r.get('new_findings', [])[:3]:
                print('      + %s %s :: %s :: %s' % (f['rule'], f['function'], f['construct'][:60], f['message'][:110]))
            if r['outcome'] in ('MISSED', 'NOISY'):
                rc = 1
    return rc


if __name__ == '__main__':
    sys.exit(main())
