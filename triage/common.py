import sys, warnings
warnings.filterwarnings("ignore")
sys.path.insert(0, __import__('os').environ.get('SGZ_REPO','/repo'))
import pkg_resources
class _D:
    version = '0.2.9'
_orig = pkg_resources.get_distribution
def _gd(name):
    if name == 'seismic_zfp':
        return _D()
    return _orig(name)
pkg_resources.get_distribution = _gd
import numpy as np, segyio
import seismic_zfp
from seismic_zfp.conversion import SegyConverter, NumpyConverter, SgzConverter
from seismic_zfp.read import SgzReader
from seismic_zfp.cropping import SgzCropper
