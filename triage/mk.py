from common import *
def make_segy(path, n_il, n_xl, n_s, il0=1, il_step=1, xl0=20, xl_step=1, fmt=5, dt_us=4000, t0=0, holes=(), extra=None, seed=0):
    rng = np.random.default_rng(seed)
    spec = segyio.spec()
    spec.format = fmt
    spec.sorting = 2
    spec.samples = t0 + np.arange(n_s) * (dt_us/1000.0)
    ilines = il0 + il_step*np.arange(n_il)
    xlines = xl0 + xl_step*np.arange(n_xl)
    cube = np.cumsum(rng.standard_normal((n_il, n_xl, n_s)).astype(np.float32), axis=2).astype(np.float32)
    if holes:
        spec.tracecount = n_il*n_xl - len(holes)
    else:
        spec.ilines = ilines; spec.xlines = xlines; spec.offsets=[0]
    with segyio.create(path, spec) as f:
        t = 0
        for i, il in enumerate(ilines):
            for x, xl in enumerate(xlines):
                if (i, x) in holes: continue
                f.header[t] = {segyio.su.offset: 1, segyio.su.iline: int(il), segyio.su.xline: int(xl),
                               segyio.su.cdpx: int(1000+il*10), segyio.su.cdpy: int(2000+xl*10),
                               segyio.su.delrt: int(t0), segyio.su.ns: n_s, segyio.su.dt: dt_us,
                               **({} if extra is None else extra(i, x, t))}
                f.trace[t] = cube[i, x]
                t += 1
        f.bin.update(tsort=segyio.TraceSortingFormat.INLINE_SORTING, hdt=dt_us, hns=n_s)
    return cube, ilines, xlines
