#!/bin/sh
# documentation/triage helper (NOT a check): run the pinned suite and the shimmed write-path suite on a repo dir
R=${1:-/repo}
cd "$R" || exit 2
export PYTHONDONTWRITEBYTECODE=1
echo "== pinned suite"
/venv/bin/python -m pytest -q -p no:cacheprovider --timeout=900 --continue-on-collection-errors 2>&1 | tail -3
echo "== with version shim"
PYTHONPATH=/verif/triage /venv/bin/python -m pytest -p vshim -q -p no:cacheprovider --timeout=900 --continue-on-collection-errors 2>&1 | tail -12
