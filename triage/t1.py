from common import *
import os
a = np.random.rand(8,16,20).astype(np.float32)   # 128 traces -> 512 bytes per header array
with NumpyConverter(a) as c:
    c.run('/tmp/triage/a.sgz', bits_per_voxel=8)
print(os.path.getsize('/tmp/triage/a.sgz'))
with SgzReader('/tmp/triage/a.sgz') as r:
    print(r.n_header_arrays, r.header_entry_length_bytes, r.padded_header_entry_length_bytes, r.tracecount, r.file_version)
    print(r.get_tracefield_values(189))
    print(r.get_tracefield_values(193))
    print({k:int(v) for k,v in r.segy_traceheader_template.items() if isinstance(v, seismic_zfp.utils.FileOffset)})
