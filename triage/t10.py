from mk import *
import os, shutil
from segyio import TraceField as TF
def conv(src,out, **kw):
    ckw={k:kw.pop(k) for k in list(kw) if k in('min_il','max_il','min_xl','max_xl')}
    with SegyConverter(src, **ckw) as c: c.run(out, **kw)
# D14
try:
    conv('/tmp/triage/w.sgy','/tmp/triage/wr.sgz', min_il=2,max_il=7,min_xl=1,max_xl=9, bits_per_voxel=16, reduce_iops=True)
    print('D14 windowed+reduce_iops produced file')
except Exception as e: print('D14 raised', type(e).__name__, str(e)[:80])
# D17-20: crop of file with 3 header arrays (cdpx, cdpy vary? cdpx varies with il, cdpy with xl -> dupes?) use thorough
cube, ils, xls = make_segy('/tmp/triage/h.sgy', 12, 12, 40, il0=-6, xl0=500, extra=lambda i,x,t:{segyio.su.tracf: t+1})
conv('/tmp/triage/h.sgy','/tmp/triage/h.sgz', bits_per_voxel=8, header_detection='thorough')
with SgzReader('/tmp/triage/h.sgz') as r:
    print('src stored', [int(k) for k in r.stored_header_keys], r.header_entry_length_bytes, r.padded_header_entry_length_bytes, r.ilines[:3])
try:
    with SgzCropper('/tmp/triage/h.sgz') as cr:
        cr.write_cropped_file_by_indexes('/tmp/triage/hc.sgz', (4,8), (0,12), None)
    print('D20 crop negative-il ok')
except Exception as e: print('D20 crop with negative il raised', type(e).__name__, e)
cube, ils, xls = make_segy('/tmp/triage/h.sgy', 12, 12, 40, il0=6, xl0=500, extra=lambda i,x,t:{segyio.su.tracf: t+1})
conv('/tmp/triage/h.sgy','/tmp/triage/h.sgz', bits_per_voxel=8, header_detection='thorough')
with SgzCropper('/tmp/triage/h.sgz') as cr:
    cr.write_cropped_file_by_indexes('/tmp/triage/hc.sgz', (4,8), (0,12), None)
with SgzReader('/tmp/triage/hc.sgz') as r, SgzReader('/tmp/triage/h.sgz') as r0:
    r.tracecount = 48; r.structured=True   # work around D16 to see D17
    for k in r.stored_header_keys:
        a=r.get_tracefield_values(k); b=r0.get_tracefield_values(k)[4:8,0:12]
        print('D17 field', int(k), 'equal' if np.array_equal(a,b) else 'DIFFERENT')
# D19
for rng in [((8,4),None,None), ((4,4),None,None)]:
    try:
        with SgzCropper('/tmp/triage/h.sgz') as cr:
            cr.write_cropped_file_by_indexes('/tmp/triage/inv.sgz', *rng)
        print('D19', rng[0], 'wrote file size', os.path.getsize('/tmp/triage/inv.sgz'))
    except Exception as e: print('D19', rng[0], 'raised', type(e).__name__, e)
# D18
try:
    with SgzCropper('/tmp/triage/c88.sgz') as cr:
        cr.write_cropped_file_by_indexes('/tmp/triage/crop88.sgz', (0,8), (8,16), None)
    with SgzReader('/tmp/triage/crop88.sgz') as r, SgzReader('/tmp/triage/c88.sgz') as r0:
        print('D18 crop88 equal', np.array_equal(r.read_volume(), r0.read_volume()[0:8,8:16,:]))
except Exception as e: print('D18 crop88 raised', type(e).__name__, e)
