from mk import *
import os
for rng in [((8,4),None,None), ((4,4),None,None)]:
    try:
        with SgzCropper('/tmp/triage/h.sgz') as cr:
            cr.write_cropped_file_by_indexes('/tmp/triage/inv.sgz', *rng)
        print('D19', rng[0], 'wrote file size', os.path.getsize('/tmp/triage/inv.sgz'))
    except Exception as e: print('D19', rng[0], 'raised', type(e).__name__, e)
try:
    with SgzCropper('/tmp/triage/c88.sgz') as cr:
        cr.write_cropped_file_by_indexes('/tmp/triage/crop88.sgz', (0,8), (8,16), None)
    with SgzReader('/tmp/triage/crop88.sgz') as r, SgzReader('/tmp/triage/c88.sgz') as r0:
        print('D18 crop88 equal', np.array_equal(r.read_volume(), r0.read_volume()[0:8,8:16,:]))
except Exception as e: print('D18 crop88 raised', type(e).__name__, e)
