from mk import *
import os
def conv(src,out, **kw):
    with SegyConverter(src) as c: c.run(out, **kw)
# D21/D22 adv conversion: 8x8 cube (rem%4==0), 3 header arrays via thorough
for (ni,nx) in [(8,8),(5,5),(12,68)]:
    cube, ils, xls = make_segy('/tmp/triage/a.sgy', ni, nx, 40, extra=lambda i,x,t:{segyio.su.tracf: t+1})
    conv('/tmp/triage/a.sgy','/tmp/triage/a2.sgz', bits_per_voxel=2, header_detection='thorough')
    try:
        with SgzConverter('/tmp/triage/a2.sgz') as c: c.convert_to_adv_sgz('/tmp/triage/adv.sgz')
        with SgzReader('/tmp/triage/adv.sgz') as r, SgzReader('/tmp/triage/a2.sgz') as r0:
            print((ni,nx),'D22 volume equal', np.array_equal(r.read_volume(), r0.read_volume()))
            for k in r0.stored_header_keys:
                try: print('   D21 field', int(k), np.array_equal(r.get_tracefield_values(k), r0.get_tracefield_values(k)))
                except Exception as e: print('   D21 field', int(k), 'raised', type(e).__name__)
    except Exception as e: print((ni,nx),'adv raised', type(e).__name__, e)
# D24 truncated file
cube, ils, xls = make_segy('/tmp/triage/a.sgy', 12, 12, 40)
conv('/tmp/triage/a.sgy','/tmp/triage/full.sgz', bits_per_voxel=8)
data=open('/tmp/triage/full.sgz','rb').read()
open('/tmp/triage/trunc.sgz','wb').write(data[:8192+4096*5+100])
with SgzReader('/tmp/triage/full.sgz') as r0, SgzReader('/tmp/triage/trunc.sgz') as r:
    for name,fn in [('inline8',lambda q:q.read_inline(8)),('xl3',lambda q:q.read_crossline(3)),('z5',lambda q:q.read_zslice(5)),('vol',lambda q:q.read_volume()),('trace140',lambda q:q.get_trace(140)),('hdr3',lambda q:q.gen_trace_header(3)[189])]:
        try:
            a=fn(r); print('D24',name,'returned; equal to full?', np.array_equal(a, fn(r0)))
        except Exception as e: print('D24',name,'raised',type(e).__name__)
