from mk import *
import os
cube, ils, xls = make_segy('/tmp/triage/f.sgy', 5, 5, 20, fmt=5)
with segyio.open('/tmp/triage/f.sgy','r+') as f:
    f.bin[segyio.BinField.EnsembleFold]=256
with SegyConverter('/tmp/triage/f.sgy') as c: c.run('/tmp/triage/f.sgz', bits_per_voxel=16)
with SgzConverter('/tmp/triage/f.sgz') as c: c.convert_to_segy('/tmp/triage/f_out.sgy')
a=open('/tmp/triage/f.sgy','rb').read(3600); b=open('/tmp/triage/f_out.sgy','rb').read(3600)
print('D28 file header identical?', a==b, 'sizes', os.path.getsize('/tmp/triage/f.sgy'), os.path.getsize('/tmp/triage/f_out.sgy'))
try:
    with segyio.open('/tmp/triage/f_out.sgy') as f: print('format', f.bin[segyio.BinField.Format], 'fold', f.bin[segyio.BinField.EnsembleFold])
except Exception as e: print('open exported raised', type(e).__name__, e)
