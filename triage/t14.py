from mk import *
class CF:
    def __init__(s, p): s.f=open(p,'rb'); s.name=p; s.log=[]; s.pos=0
    def seek(s,o,w=0): s.pos=o; return s.f.seek(o,w)
    def read(s,n=-1):
        b=s.f.read(n); s.log.append((s.pos,n,len(b))); s.pos+=len(b); return b
    def close(s): s.f.close()
import t5  # builds l.sgy variants; last is 40 traces bs (1,16,256)
spec=None
with SegyConverter('/tmp/triage/l.sgy') as c: c.run('/tmp/triage/l4.sgz', bits_per_voxel=8, blockshape=(1,4,-1))
f=CF('/tmp/triage/l4.sgz'); r=SgzReader(f); print('bs', r.blockshape, 'chunk_bytes', r.chunk_bytes)
for i in (0, 17, 39):
    f.log.clear(); r.get_trace(i); print('D6 trace', i, f.log)
