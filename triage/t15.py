from mk import *
import os
# D32
with SgzReader('/repo/test_data/small-2d.sgz') as r:
    for name,fn in [('read_inline_number',lambda:r.read_inline_number(1)),('read_crossline_number',lambda:r.read_crossline_number(1)),('read_zslice_coord',lambda:r.read_zslice_coord(0.0)),('read_volume',lambda:r.read_volume())]:
        try: fn(); print('D32',name,'returned')
        except Exception as e: print('D32',name,type(e).__name__, isinstance(e,TypeError))
# D33 crop to end of non-multiple-of-4 axis
cube, ils, xls = make_segy('/tmp/triage/q.sgy', 10, 10, 40)
with SegyConverter('/tmp/triage/q.sgy') as c: c.run('/tmp/triage/q.sgz', bits_per_voxel=8)
with SgzCropper('/tmp/triage/q.sgz') as cr:
    cr.write_cropped_file_by_indexes('/tmp/triage/qc.sgz', (4,10), (4,10), None)
with SgzReader('/tmp/triage/qc.sgz') as r, SgzReader('/tmp/triage/q.sgz') as r0:
    print('D33 size', os.path.getsize('/tmp/triage/qc.sgz'), 'declared data', r.compressed_data_diskblocks*4096, 'n', r.n_ilines, r.n_xlines)
    try: print('D33 equal', np.array_equal(r.read_volume(), r0.read_volume()[4:10,4:10]))
    except Exception as e: print('D33 raised', type(e).__name__, e)
