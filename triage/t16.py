from mk import *
with SegyConverter('/repo/test_data/small_reverse_il.sgy') as c: c.run('/tmp/triage/rev.sgz', bits_per_voxel=8)
with seismic_zfp.open('/tmp/triage/rev.sgz') as f, segyio.open('/repo/test_data/small_reverse_il.sgy') as s:
    print('ilines', f.ilines, s.ilines)
    print('D31 len(iline[:]) sgz', len(f.iline[:]), 'segyio', len(list(s.iline[:])))
    print('D31 iter', len([x for x in f.iline]), len([x for x in s.iline]))
