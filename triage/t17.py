from mk import *
for dt in (1001, 4000, 333, 2003):
    make_segy('/tmp/triage/d.sgy', 5, 5, 30, dt_us=dt)
    with SegyConverter('/tmp/triage/d.sgy') as c: c.run('/tmp/triage/d.sgz', bits_per_voxel=8)
    with SgzReader('/tmp/triage/d.sgz') as r, segyio.open('/tmp/triage/d.sgy') as s:
        print('D26 dt', dt, 'src samples[1:3]', s.samples[1:3], 'sgz', r.zslices[1:3], 'len', len(r.zslices), len(s.samples), 'stored us', seismic_zfp.utils.bytes_to_int(r.headerbytes[28:32]))
