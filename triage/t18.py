import sys; sys.path.insert(0,'/verif/triage')
from common import *
import tempfile, os
d = tempfile.mkdtemp()
n_il, n_xl, n_s = 8, 12, 1024
a = np.random.RandomState(0).randn(n_il, n_xl, n_s).astype(np.float32)
il = np.arange(100, 100+n_il); xl = np.arange(200, 200+n_xl)
th = {segyio.TraceField.CDP_X: (np.arange(n_il*n_xl).reshape(n_il,n_xl)*7).astype(np.int32)}
src = os.path.join(d,'src.sgz')
with NumpyConverter(a, ilines=il, xlines=xl, trace_headers=th) as c:
    c.run(src, bits_per_voxel=2, blockshape=(4,4,1024))
for hist in (False, True):
    out = os.path.join(d,'adv%d.sgz' % hist)
    with SgzConverter(src) as c:
        if hist:
            c.get_tracefield_values(193)     # look at crossline numbers first
        c.convert_to_adv_sgz(out)
    with SgzReader(out) as r:
        ok = all(np.array_equal(r.get_tracefield_values(k), v) for k, v in
                 [(189, np.broadcast_to(il[:,None],(n_il,n_xl))), (193, np.broadcast_to(xl,(n_il,n_xl))), (181, th[181])])
        print('history' if hist else 'fresh', 'headers preserved:', ok, r.get_tracefield_values(189)[0,:3])
