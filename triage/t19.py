import sys; sys.path.insert(0,'/verif/triage')
from common import *
import tempfile, os
d = tempfile.mkdtemp()
out = os.path.join(d,'rev.sgz')
with SegyConverter('/repo/test_data/small_reverse_il.sgy') as c:
    c.run(out, bits_per_voxel=16)
import seismic_zfp
with segyio.open('/repo/test_data/small_reverse_il.sgy') as s, seismic_zfp.open(out) as z:
    for name, sl in [('[:]', slice(None)), ('[2:4]', slice(2,4)), ('[5:1:-1]', slice(5,1,-1)), ('[::-1]', slice(None,None,-1)), ('[:3]', slice(None,3)), ('[4:]', slice(4,None))]:
        a = [round(float(x[0,0])) for x in s.iline[sl]]
        try:
            b = [round(float(x[0,0])) for x in z.iline[sl]]
        except Exception as e:
            b = repr(e)
        print('iline%s segyio %s  sgz %s  %s' % (name, a, b, 'OK' if a == b else 'DIFFER'))
    print('iter segyio', [round(float(x[0,0])) for x in s.iline], 'sgz', [round(float(x[0,0])) for x in z.iline])
