from common import *
import os
from segyio import TraceField as TF
a = np.random.rand(8,16,20).astype(np.float32)   # 128 traces -> 512 bytes per header array
il = np.broadcast_to(np.arange(10,18,dtype=np.int32)[:,None], (8,16)).copy()
xl = np.broadcast_to(np.arange(100,116,dtype=np.int32)[None,:], (8,16)).copy()
cdp = (il*1000+xl).astype(np.int32)
with NumpyConverter(a, trace_headers={TF.INLINE_3D: il, TF.CROSSLINE_3D: xl, TF.CDP: cdp}) as c:
    c.run('/tmp/triage/a.sgz', bits_per_voxel=8)
print(os.path.getsize('/tmp/triage/a.sgz'))
with SgzReader('/tmp/triage/a.sgz') as r:
    print(r.n_header_arrays, r.header_entry_length_bytes, r.padded_header_entry_length_bytes, r.tracecount, r.file_version, r.compressed_data_diskblocks)
    for f in (TF.CDP, TF.INLINE_3D, TF.CROSSLINE_3D):
        v = r.get_tracefield_values(f)
        print(f, v[0,:4], v[-1,-4:])
    print({k:int(v) for k,v in r.segy_traceheader_template.items() if isinstance(v, seismic_zfp.utils.FileOffset)})
