import sys; sys.path.insert(0,'/verif/triage')
from common import *
import tempfile, os, glob
for fn in sorted(glob.glob('/repo/test_data/*.sgz')):
    try:
        with SgzReader(fn) as r:
            print(os.path.basename(fn), 'n_header_arrays', r.n_header_arrays, 'stored_header_keys', len(r.stored_header_keys),
                  [int(k) for k in r.stored_header_keys][:8])
    except Exception as e:
        print(fn, 'ERR', e)
