import sys; sys.path.insert(0,'/verif/triage')
from common import *
import tempfile, os
d = tempfile.mkdtemp()
src = os.path.join(d,'dup.sgz')
with SegyConverter('/repo/test_data/small-duplicate-traceheaders.sgy') as c:
    c.run(src, bits_per_voxel=16)
with SgzReader(src) as r:
    print('n_header_arrays', r.n_header_arrays, 'stored_header_keys', [int(k) for k in r.stored_header_keys])
    ref = {int(k): r.get_tracefield_values(k).copy() for k in r.stored_header_keys}
out = os.path.join(d,'crop.sgz')
with SgzCropper(src) as c:
    c.write_cropped_file_by_indexes(out, iline_index_range=(0,4))
with SgzReader(out) as r:
    print('cropped file size', os.path.getsize(out), 'n_header_arrays', r.n_header_arrays)
    for k in r.stored_header_keys:
        got = r.get_tracefield_values(k)
        print(int(k), 'OK' if np.array_equal(got, ref[int(k)][0:4]) else 'WRONG', got[0,:3], ref[int(k)][0,:3])
