import sys; sys.path.insert(0,'/verif/triage')
from common import *
import tempfile, os
d = tempfile.mkdtemp()
src = os.path.join(d,'irr.sgz')
with SegyConverter('/repo/test_data/small_hole.sgy') as c:
    c.run(src, bits_per_voxel=2, blockshape=(4,4,1024))
with SgzReader(src) as r:
    print('structured', r.structured, 'tracecount', r.tracecount, 'grid', r.n_ilines, r.n_xlines, 'hdr bytes', r.header_entry_length_bytes)
    ref = {int(k): r.get_tracefield_values(k).copy() for k in r.stored_header_keys}
    vol = r.read_volume()
out = os.path.join(d,'adv.sgz')
with SgzConverter(src) as c:
    c.convert_to_adv_sgz(out)
print('sizes', os.path.getsize(src), os.path.getsize(out))
with SgzReader(out) as r:
    for k in r.stored_header_keys:
        try:
            got = r.get_tracefield_values(k)
            print(int(k), 'OK' if np.array_equal(got, ref[int(k)]) else 'WRONG')
        except Exception as e:
            print(int(k), 'ERR', repr(e)[:100])
    print('volume equal', np.array_equal(r.read_volume(), vol))
