import sys; sys.path.insert(0,'/verif/triage')
from common import *
import tempfile, os
from seismic_zfp.utils import define_blockshape_3d
print(define_blockshape_3d(8, (-1, 64, 64)))
d = tempfile.mkdtemp()
a = np.random.RandomState(0).randn(6, 70, 70).astype(np.float32)
out = os.path.join(d,'x.sgz')
try:
    with NumpyConverter(a) as c:
        c.run(out, bits_per_voxel=8, blockshape=(-1, 64, 64))
    print('written', os.path.getsize(out))
    with SgzReader(out) as r:
        print('is_2d', r.is_2d, 'shape_pad', r.shape_pad)
        v = r.read_volume()
        print(v.shape, np.abs(v-a).max())
except Exception as e:
    print('ERR', type(e).__name__, str(e)[:200], 'output exists:', os.path.exists(out))
