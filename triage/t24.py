# xarray backend: integer and stepped indexers (D39). Run: /venv/bin/python t24.py   (read path only; no shim needed)
import xarray as xr, numpy as np
from seismic_zfp.read import SgzReader
f = '/repo/test_data/small_4bit.sgz'
vol = SgzReader(f).read_volume()
s = xr.open_dataset(f)
for name, fn, ref in [('[3]', lambda: s.data[3], vol[3]), ('[::2]', lambda: s.data[::2], vol[::2]),
                      ('[1:5:2, :, 0:10:3]', lambda: s.data[1:5:2, :, 0:10:3], vol[1:5:2, :, 0:10:3]),
                      ('[:, :, 7]', lambda: s.data[:, :, 7], vol[:, :, 7])]:
    try:
        a = fn().to_numpy()
        print(name, a.shape, 'OK' if a.shape == ref.shape and np.array_equal(a, ref) else 'WRONG (expected %s)' % (ref.shape,))
    except Exception as e:
        print(name, 'ERR', type(e).__name__, str(e)[:90])
