import sys; sys.path.insert(0,'/verif/triage'); sys.path.insert(0,'/repo')
import numpy as np
from seismic_zfp.read import SgzReader
from seismic_zfp.utils import bytes_to_int
p='/repo/test_data/small_v0.0.1.sgz'
import os
print('size', os.path.getsize(p))
with SgzReader(p) as r:
    print('version', r.file_version, 'n_header_blocks', r.n_header_blocks, 'data blocks field', r.compressed_data_diskblocks, 'hdr entry len', r.header_entry_length_bytes, 'n arrays', r.n_header_arrays)
    print('shape_pad', r.shape_pad, 'blockshape', r.blockshape, 'rate', r.rate)
    a = r.read_inline(0).copy()
with SgzReader(p, preload=True) as r2:
    try:
        b = r2.read_inline(0).copy()
        print('preload equal:', np.array_equal(a, b), 'max diff', float(np.max(np.abs(a-b))))
    except Exception as e:
        print('preload raised', type(e).__name__, e)
