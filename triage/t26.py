import sys; sys.path.insert(0,'/verif/triage')
from common import *
import os, tempfile
p='/repo/test_data/small_v0.0.1.sgz'
out=tempfile.mktemp(suffix='.sgz')
with SgzCropper(p) as c:
    c.write_cropped_file_by_indexes(out, (0,4), (0,4), (0,50))
with SgzReader(p) as r, SgzReader(out) as q:
    a = r.read_subvolume(0,4,0,4,0,50)
    print('src ilines', r.ilines[:5], 'xlines', r.xlines[:5], 'z', r.zslices[:3], r.n_samples)
    print('crop ilines', q.ilines, 'xlines', q.xlines, 'z', q.zslices[:3], q.n_samples, 'shape_pad', q.shape_pad, 'version', q.file_version)
    try:
        b = q.read_subvolume(0,4,0,4,0,q.n_samples)
        print('equal', np.array_equal(a[:,:,:b.shape[2]], b[:,:,:50]) if b.shape[2]>=50 else b.shape, float(np.max(np.abs(a-b[:,:,:50]))))
    except Exception as e:
        print('raised', type(e).__name__, e)
os.remove(out)
