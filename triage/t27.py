import sys; sys.path.insert(0,'/verif/triage')
from common import *
from seismic_zfp.utils import bytes_to_int
import os, tempfile
p='/repo/test_data/small_v0.0.1.sgz'
out=tempfile.mktemp(suffix='.sgz')
with SgzCropper(p) as c:
    c.write_cropped_file_by_indexes(out, (0,4), (0,4), (0,50))
print(os.path.getsize(p), os.path.getsize(out))
with SgzReader(p) as r, SgzReader(out) as q:
    a = r.read_subvolume(0,4,0,4,0,50); b = q.read_subvolume(0,4,0,4,0,50)
    full = r.read_subvolume(0,5,0,5,0,50)
    for i in range(4):
        for x in range(4):
            m = [(ii,xx) for ii in range(5) for xx in range(5) if np.allclose(full[ii,xx], b[i,x], atol=1e-6)]
            print((i,x), '->', m, end='; ')
        print()
    print('hdr src', [bytes_to_int(r.headerbytes[k:k+4]) for k in range(0,84,4)])
    print('hdr out', [bytes_to_int(q.headerbytes[k:k+4]) for k in range(0,84,4)])
os.remove(out)
