import sys; sys.path.insert(0,'/verif/triage')
from common import *
import seismic_zfp
# (1) 2D: negative header indices beyond -len
p2='/repo/test_data/small-2d.sgz'
import os
cands=[f for f in os.listdir('/repo/test_data') if '2d' in f.lower() and f.endswith('.sgz')]
print(cands)
p2=os.path.join('/repo/test_data', cands[0])
with seismic_zfp.open(p2) as f:
    n=len(f.header)
    print('2D traces', n)
    for i in (-1, -n, -n-1, -2*n, -2*n-1):
        try:
            h=f.header[i]; print(i, 'returned header, TRACE_SEQUENCE_FILE=', h[5] if 5 in h else list(h.items())[:1])
        except Exception as e:
            print(i, type(e).__name__)
    for i in (-1, -n, -n-1, -2*n):
        try:
            t=f.trace[i]; print('trace', i, 'ok', t.shape)
        except Exception as e:
            print('trace', i, type(e).__name__)
# (2) get_trace sample window on 2D
with SgzReader(p2) as r:
    a=r.get_trace(0); b=r.get_trace(0, min_sample_id=2, max_sample_id=10)
    print('2D get_trace window:', a.shape, b.shape)
with SgzReader('/repo/test_data/small_8bit.sgz') as r:
    a=r.get_trace(0); b=r.get_trace(0, min_sample_id=2, max_sample_id=10)
    print('3D get_trace window:', a.shape, b.shape)
