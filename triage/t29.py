import sys; sys.path.insert(0,'/verif/triage')
from common import *
import seismic_zfp
for p in ('/repo/test_data/small_hole.sgz', '/repo/test_data/small-irregular.sgz'):
    with seismic_zfp.open(p) as f:
        n=len(f.trace)
        print(p.split('/')[-1], 'traces', n)
        for i in (-1, -n, -n-1, -n-2, -2*n):
            try:
                t=f.trace[i]; print(' trace', i, 'returned', t.shape, 'equal to trace[%d]: %s' % (i+n, np.array_equal(t, f.trace[i+n]) if -n<=i+n<n else '?'))
            except Exception as e:
                print(' trace', i, type(e).__name__)
        for i in (-n-1, -2*n):
            try:
                h=f.header[i]; print(' header', i, 'returned')
            except Exception as e:
                print(' header', i, type(e).__name__)
