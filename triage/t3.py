from mk import *
import os
# irregular with different il/xl steps
holes = {(0,0),(2,3)}
cube, ils, xls = make_segy('/tmp/triage/irr.sgy', 5, 6, 20, il0=10, il_step=2, xl0=100, xl_step=3, holes=holes)
with SegyConverter('/tmp/triage/irr.sgy') as c:
    c.run('/tmp/triage/irr.sgz', bits_per_voxel=16)
with SgzReader('/tmp/triage/irr.sgz') as r:
    print('ilines', r.ilines, 'expected', ils)
    print('xlines', r.xlines, 'expected', xls)
    print(r.tracecount, r.structured)
