import sys; sys.path.insert(0,'/verif/triage')
from common import *
import tempfile, os
vol = np.random.RandomState(0).rand(128, 128, 8).astype(np.float32)
out = tempfile.mktemp(suffix='.sgz')
try:
    with NumpyConverter(vol) as c:
        c.run(out, bits_per_voxel=-2, blockshape=(128, 128, 4))
    with SgzReader(out) as r:
        print('blockshape', r.blockshape, 'rate', r.rate, 'unit_bytes', r.unit_bytes, 'block_bytes', r.block_bytes)
        v = r.read_volume()
        try:
            z = r.read_zslice(3); print('zslice ok', np.array_equal(z, v[:, :, 3]))
        except Exception as e:
            print('read_zslice raised', type(e).__name__, str(e)[:80])
        try:
            a = r.read_inline(5); print('inline ok', np.array_equal(a, v[5]))
        except Exception as e:
            print('read_inline raised', type(e).__name__, str(e)[:80])
except Exception as e:
    print('conversion raised', type(e).__name__, str(e)[:100])
finally:
    if os.path.exists(out): os.remove(out)
