"""D45: SgzReader.get_trace / get_trace_by_coord ignore the sample window on 2D files (C02: 'traces with or without a
sample window (by index or coordinate)' are slices of the decoded volume)."""
import sys; sys.path.insert(0, '/verif/triage')
from common import *
import numpy as np
p2 = '/repo/test_data/small-2d.sgz'
with SgzReader(p2) as r:
    full = r.get_trace(3)
    win = r.get_trace(3, min_sample_id=2, max_sample_id=10)
    print('2D get_trace(3)            ', full.shape)
    print('2D get_trace(3, 2, 10)     ', win.shape, 'expected (8,)', 'OK' if win.shape == (8,) and np.array_equal(win, full[2:10]) else 'WRONG')
    z = r.zslices
    c = r.get_trace_by_coord(3, min_sample_no=z[2], max_sample_no=z[10])
    print('2D get_trace_by_coord(3, z[2], z[10])', c.shape, 'OK' if c.shape == (8,) and np.array_equal(c, full[2:10]) else 'WRONG')
    for bad in ((5, 5), (-1, 4), (0, len(z) + 1)):
        try:
            r.get_trace(0, *bad); print('window', bad, 'accepted')
        except IndexError:
            print('window', bad, 'IndexError')
with SgzReader('/repo/test_data/small_8bit.sgz') as r:
    full = r.get_trace(3); win = r.get_trace(3, 2, 10)
    print('3D get_trace(3, 2, 10)     ', win.shape, 'OK' if np.array_equal(win, full[2:10]) else 'WRONG')
