"""D46: rates below ZFP's minimum of 9 bits per block (2D: 1/2, 1/4; 3D: 1/8) are accepted by the resolver and the
conversion dies inside zfpy (heap overrun: 'malloc(): invalid size' / SIGSEGV).  usage: t32.py [repo root]"""
import sys, os, subprocess
root = sys.argv[1] if len(sys.argv) > 1 else '/repo'
code = '''
import sys; sys.path.insert(0, %r); sys.path.insert(1, '/tmp/shim')
import vshim
import numpy as np, os
from seismic_zfp.conversion import SegyConverter, NumpyConverter
from seismic_zfp.read import SgzReader
out = %r
kind, bpv = %r, %r
if os.path.exists(out): os.remove(out)
try:
    if kind == '2d':
        with SegyConverter(%r + '/test_data/small-2d.sgy') as c:
            c.run(out, bits_per_voxel=bpv)
    else:
        with NumpyConverter(np.random.rand(8, 8, 64).astype('float32')) as c:
            c.run(out, bits_per_voxel=bpv)
except (AssertionError, ValueError) as e:
    print('rejected (%%s), output exists: %%s' %% (type(e).__name__, os.path.exists(out))); raise SystemExit(0)
with SgzReader(out) as r:
    print('written; rate', r.rate, 'blockshape', r.blockshape)
'''
for kind, bpv in (('2d', 1), ('2d', -2), ('2d', -4), ('2d', '0.5'), ('3d', -2), ('3d', -4), ('3d', -8)):
    out = '/tmp/t32-out.sgz'
    r = subprocess.run([sys.executable, '-c', code % (root, out, kind, bpv, root)], capture_output=True, text=True)
    last = (r.stdout.strip().splitlines() or [''])[-1]
    print('%s bits_per_voxel=%r -> rc=%d %s' % (kind, bpv, r.returncode, last[-120:] if r.returncode == 0 else (r.stderr.strip().splitlines() or ['crash'])[-1][:120]))
    if os.path.exists(out): os.remove(out)
