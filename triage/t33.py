"""D47: f.attributes(field)[...] raises KeyError for a field that is constant through the file (segyio returns the
constant array).  D48: f.text[0] is shorter than 3200 bytes when the EBCDIC header holds a character outside ASCII
(cp037 decode + ascii/ignore drops it, shifting the 80-column cards).   usage: t33.py [repo root]"""
import sys
root = sys.argv[1] if len(sys.argv) > 1 else '/repo'
sys.path.insert(0, root); sys.path.insert(1, '/tmp/shim')
import vshim
import numpy as np, segyio, seismic_zfp
for sgy, sgz, kw in ((root + '/test_data/small.sgy', root + '/test_data/small_8bit.sgz', {}),
                     (root + '/test_data/small-2d.sgy', root + '/test_data/small-2d.sgz', dict(strict=False, ignore_geometry=True))):
    with segyio.open(sgy, **kw) as s, seismic_zfp.open(sgz) as f:
        bad = []
        for field in segyio.tracefield.keys.values():
            ref = s.attributes(field)[:]
            try:
                got = f.attributes(field)[:]
                if not (len(got) == len(ref) and np.array_equal(np.asarray(got), ref)):
                    bad.append((field, 'differs'))
                if not np.array_equal(np.asarray(f.attributes(field)[::3]), s.attributes(field)[::3]):
                    bad.append((field, 'stepped differs'))
            except Exception as e:
                bad.append((field, type(e).__name__))
        print(sgz.split('/')[-1], 'attributes: %d of %d fields wrong' % (len({b[0] for b in bad}), len(segyio.tracefield.keys)), bad[:4])
        ta, tb = bytes(s.text[0]), bytes(f.text[0])
        print(sgz.split('/')[-1], 'text[0] length segyio', len(ta), 'sgz', len(tb), 'equal up to non-ASCII codes:',
              len(ta) == len(tb) and all(x == y or y == ord('?') for x, y in zip(ta, tb)))
