import sys
root = sys.argv[1] if len(sys.argv) > 1 else '/repo'
sys.path.insert(0, root); sys.path.insert(1, '/tmp/shim')
import vshim
import numpy as np, segyio, seismic_zfp
sgy=root+'/test_data/small-irregular.sgy'; sgz=root+'/test_data/small-irregular.sgz'
with segyio.open(sgy, ignore_geometry=True) as s:
    ref=[(h[189],h[193]) for h in s.header]
with seismic_zfp.open(sgz) as f:
    a=[(h[189],h[193]) for h in f.header]
    print('fresh: header == segyio', a==ref, 'include_padding', f.include_padding, {k:len(v) for k,v in f.variant_headers.items()})
with seismic_zfp.open(sgz) as f:
    try:
        x=f.attributes(189)[:]
        print('after attributes: include_padding', f.include_padding, {int(k):len(v) for k,v in f.variant_headers.items()})
        b=[(h[189],h[193]) for h in f.header]
        print('attributes first, then header == segyio', b==ref, [i for i in range(len(ref)) if b[i]!=ref[i]][:5], {int(k):len(v) for k,v in f.variant_headers.items()})
    except Exception as e: print('EXC', type(e).__name__, e)
with seismic_zfp.open(sgz) as f:
    try:
        g=f.get_tracefield_values(189)
        t=[f.header[i][189] for i in range(24)]
        print('tracefield_values first, then header[i][189] == segyio', t==[r[0] for r in ref])
    except Exception as e: print('EXC', type(e).__name__, e)
