import sys
sys.path.insert(0,'/repo'); sys.path.insert(1,'/tmp/shim')
import vshim
import numpy as np, os, random
from seismic_zfp.read import SgzReader
import seismic_zfp
files=[f for f in sorted(os.listdir('/repo/test_data')) if f.endswith('.sgz')]
random.seed(3)
bad=0
for fn in files:
    p='/repo/test_data/'+fn
    try:
        with SgzReader(p) as r0:
            is2d=r0.is_2d; n_il,n_xl,n_s=r0.n_ilines,r0.n_xlines,r0.n_samples; tc=r0.tracecount; structured=r0.structured
    except Exception as e:
        print(fn,'open EXC',type(e).__name__, str(e)[:60]); continue
    def ops():
        o=[]
        for _ in range(25):
            if is2d:
                k=random.choice(['trace','tracew','subplane','header'])
                if k=='trace': o.append(('get_trace',(random.randrange(tc),)))
                elif k=='tracew':
                    a=random.randrange(n_s); b=random.randrange(a+1,n_s+1); o.append(('get_trace',(random.randrange(tc),a,b)))
                elif k=='subplane':
                    a=random.randrange(tc); b=random.randrange(a+1,tc+1); c=random.randrange(n_s); d=random.randrange(c+1,n_s+1); o.append(('read_subplane',(a,b,c,d)))
                else: o.append(('gen_trace_header',(random.randrange(tc),)))
            else:
                k=random.choice(['il','xl','z','trace','tracew','sub','cd','ad','header','tf'])
                if k=='il': o.append(('read_inline',(random.randrange(n_il),)))
                elif k=='xl': o.append(('read_crossline',(random.randrange(n_xl),)))
                elif k=='z': o.append(('read_zslice',(random.randrange(n_s),)))
                elif k=='trace': o.append(('get_trace',(random.randrange(tc),)))
                elif k=='tracew':
                    a=random.randrange(n_s); b=random.randrange(a+1,n_s+1); o.append(('get_trace',(random.randrange(tc),a,b)))
                elif k=='sub':
                    a=random.randrange(n_il); b=random.randrange(a+1,n_il+1); c=random.randrange(n_xl); d=random.randrange(c+1,n_xl+1); e=random.randrange(n_s); f=random.randrange(e+1,n_s+1); o.append(('read_subvolume',(a,b,c,d,e,f)))
                elif k=='cd': o.append(('read_correlated_diagonal',(random.randrange(-n_xl+1,n_il),)))
                elif k=='ad': o.append(('read_anticorrelated_diagonal',(random.randrange(n_il+n_xl-1),)))
                elif k=='header': o.append(('gen_trace_header',(random.randrange(tc),)))
                else: o.append(('get_tracefield_values',(random.choice([189,193,1,21,181,185]),)))
        return o
    seq=ops()
    def run(order, **kw):
        res={}
        with SgzReader(p, **kw) as r:
            for i in order:
                name,args=seq[i]
                try: v=getattr(r,name)(*args)
                except Exception as e: v=('EXC',type(e).__name__)
                res[i]=v
        return res
    base=run(range(len(seq)))
    fresh={}
    for i in range(len(seq)): fresh.update(run([i]))
    variants={'reversed':run(list(reversed(range(len(seq))))), 'preload':run(range(len(seq)), preload=True), 'cache1':run(range(len(seq)), chunk_cache_size=1), 'fresh':fresh}
    def same(a,b):
        if isinstance(a,tuple) or isinstance(b,tuple): return a==b if (isinstance(a,tuple) and isinstance(b,tuple)) else False
        if isinstance(a,dict): return a==b
        return np.array_equal(np.asarray(a),np.asarray(b))
    for vn,res in variants.items():
        d=[i for i in range(len(seq)) if not same(base[i],res[i])]
        if d:
            bad+=1; print(fn, vn, 'DIFF at', [(seq[i], base[i] if isinstance(base[i],tuple) else 'val', res[i] if isinstance(res[i],tuple) else 'val') for i in d[:3]])
    exc=[(seq[i]) for i in range(len(seq)) if isinstance(base[i],tuple)]
    print(fn, 'ok' , 'exceptions:', exc[:3])
print('bad',bad)
