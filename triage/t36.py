"""D50: SgzCropper on an SGZ made from an irregular SEG-Y is neither refused nor cropped: ValueError (reshape of the
mask-compacted header arrays) after the output was opened - a partial output that opens as a structured cube is left.
usage: t36.py [repo root]"""
import sys, os
root = sys.argv[1] if len(sys.argv) > 1 else '/repo'
sys.path.insert(0, root); sys.path.insert(1, '/tmp/shim')
import vshim
from seismic_zfp.cropping import SgzCropper
from seismic_zfp.read import SgzReader
for fn in ('small-irregular.sgz', 'small_hole.sgz', 'small_8bit.sgz'):
    out = '/tmp/t36-out.sgz'
    if os.path.exists(out): os.remove(out)
    try:
        with SgzCropper(root + '/test_data/' + fn) as c:
            c.write_cropped_file_by_indexes(out, (0, 4), (0, 4), (0, 8))
        print(fn, 'cropped,', os.path.getsize(out), 'bytes')
    except Exception as e:
        print(fn, 'raised', type(e).__name__, '(%s)' % e, '| output left behind:', os.path.exists(out))
        if os.path.exists(out):
            with SgzReader(out) as r:
                print('   the partial output opens: structured =', r.structured, 'tracecount =', r.tracecount, 'read_volume', r.read_volume().shape)
    if os.path.exists(out): os.remove(out)
