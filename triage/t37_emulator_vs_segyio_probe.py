import sys
sys.path.insert(0,'/repo'); sys.path.insert(1,'/tmp/shim')
import vshim
import numpy as np, segyio, seismic_zfp, os, random
pairs=[('small.sgy',f) for f in ('small_8bit.sgz','small_4bit.sgz','small_2bit.sgz','small_1bit.sgz','small_05bit.sgz','small_025bit.sgz','small_8bit-8x8.sgz','small_2bit-64x64.sgz')]+[('small-dec.sgy','small-dec_8bit.sgz')]
random.seed(5)
T='/repo/test_data/'
def val(fn):
    try: return fn()
    except Exception as e: return ('EXC', type(e).__name__)
def struct(v):
    if isinstance(v, tuple) and v and v[0]=='EXC': return v
    if isinstance(v, dict) or hasattr(v,'keys'): return ('dict', tuple(sorted(int(k) for k in dict(v).keys())))
    try:
        a=np.asarray(v); return ('arr', a.shape)
    except Exception: return ('obj', type(v).__name__)
for sgy,sgz in pairs:
    if not os.path.exists(T+sgy): print('missing',sgy); continue
    with segyio.open(T+sgy) as s, seismic_zfp.open(T+sgz) as f:
        il=list(s.ilines); xl=list(s.xlines); ns=len(s.samples); n=s.tracecount
        exprs=[]
        for ln in il[:2]+[il[-1], il[0]-1, il[-1]+1]: exprs.append(('iline[%d]'%ln, lambda o,ln=ln:o.iline[ln]))
        for ln in xl[:2]+[xl[-1], xl[0]-1]: exprs.append(('xline[%d]'%ln, lambda o,ln=ln:o.xline[ln]))
        for k in (0,1,ns-1,-1,ns,-ns,-ns-1): exprs.append(('depth_slice[%d]'%k, lambda o,k=k:o.depth_slice[k]))
        for k in (0,n-1,-1,-n,n,-n-1): 
            exprs.append(('trace[%d]'%k, lambda o,k=k:o.trace[k])); exprs.append(('header[%d]'%k, lambda o,k=k:dict(o.header[k])))
        for sl in (slice(None),slice(1,None,2),slice(None,None,-1),slice(-3,None),slice(2,2),slice(n-2,n+5)):
            exprs.append(('trace[%s]'%(sl,), lambda o,sl=sl:np.array([np.array(t) for t in o.trace[sl]])))
            exprs.append(('header[%s]'%(sl,), lambda o,sl=sl:[dict(h)[189]*1000+dict(h)[193] for h in o.header[sl]]))
            exprs.append(('depth_slice[%s]'%(sl,), lambda o,sl=sl:np.array([np.array(t) for t in o.depth_slice[sl]])))
        d_il=il[1]-il[0]; d_xl=xl[1]-xl[0]
        for sl in (slice(None), slice(il[1],None), slice(None,il[-2]), slice(il[0],il[-1],2*d_il), slice(il[1],il[-1]+d_il), slice(None,None,d_il), slice(il[-1], il[0], -d_il), slice(None,None,-d_il)):
            exprs.append(('iline[%s]'%(sl,), lambda o,sl=sl:np.array([np.array(t) for t in o.iline[sl]])))
        for sl in (slice(None), slice(xl[1],None), slice(None,None,2*d_xl), slice(None,None,-d_xl)):
            exprs.append(('xline[%s]'%(sl,), lambda o,sl=sl:np.array([np.array(t) for t in o.xline[sl]])))
        for fld in (189,193,1,115,117,181):
            exprs.append(('attributes(%d)[:]'%fld, lambda o,fld=fld:np.asarray(o.attributes(fld)[:])))
            exprs.append(('attributes(%d)[2:9:3]'%fld, lambda o,fld=fld:np.asarray(o.attributes(fld)[2:9:3])))
            exprs.append(('attributes(%d)[-1]'%fld, lambda o,fld=fld:np.asarray(o.attributes(fld)[-1])))
        exprs += [('len(iline)',lambda o:len(o.iline)),('len(xline)',lambda o:len(o.xline)),('len(depth_slice)',lambda o:len(o.depth_slice)),('len(trace)',lambda o:len(o.trace)),('len(header)',lambda o:len(o.header)),
                  ('ilines',lambda o:o.ilines),('xlines',lambda o:o.xlines),('samples',lambda o:o.samples),('tracecount',lambda o:o.tracecount),('bin',lambda o:dict(o.bin)),('text',lambda o:len(bytes(o.text[0])))]
        nd=0
        for name,fn in exprs:
            a=val(lambda:fn(s)); b=val(lambda:fn(f))
            sa,sb=struct(a),struct(b)
            hdr = name.startswith(('header','attributes','len','ilines','xlines','samples','tracecount','bin','text'))
            eq = True
            if sa!=sb: eq=False
            elif hdr and not (isinstance(a,tuple) and a and a[0]=='EXC'):
                eq = (a==b) if isinstance(a,(dict,int,list)) else np.array_equal(np.asarray(a),np.asarray(b))
            if not eq:
                nd+=1; print(sgz, name, 'segyio', sa if sa!=sb else 'values', 'sgz', sb if sa!=sb else 'differ')
        print(sgz, 'expressions', len(exprs), 'differences', nd)
