import sys
sys.path.insert(0,'/repo'); sys.path.insert(1,'/tmp/shim')
import vshim
import numpy as np, segyio, os, zfpy, itertools
from seismic_zfp.conversion import SegyConverter
from seismic_zfp.read import SgzReader
import seismic_zfp
rng=np.random.default_rng(1)
def make2d(path, ntr, ns):
    a=rng.normal(size=(ntr,ns)).astype('float32').cumsum(axis=1)
    spec=segyio.spec(); spec.format=5; spec.samples=np.arange(ns)*4.0; spec.tracecount=ntr
    with segyio.create(path, spec) as f:
        for i in range(ntr):
            f.header[i]={segyio.TraceField.TRACE_SEQUENCE_FILE:i+1, segyio.TraceField.CDP:100+3*i, segyio.TraceField.TRACE_SAMPLE_COUNT:ns, segyio.TraceField.TRACE_SAMPLE_INTERVAL:4000, segyio.TraceField.SourceX: 1000-7*i}
            f.trace[i]=a[i]
        f.bin.update({segyio.BinField.Samples:ns, segyio.BinField.Interval:4000, segyio.BinField.Format:5})
    return a
bad=0
for (ntr,ns),(bpv,bs) in itertools.product([(25,50),(4,8),(5,3),(130,300),(64,512),(17,1025)], [(8,(1,4,-1)),(4,(1,16,-1)),(16,(1,-1,64)),(2,(1,64,256)),(1,(1,-1,-1)) , (32,(1,4,256))]):
    p='/tmp/p2d.sgy'; q='/tmp/p2d.sgz'
    a=make2d(p,ntr,ns)
    try:
        with SegyConverter(p) as c: c.run(q, bits_per_voxel=bpv, blockshape=bs)
    except Exception as e:
        print((ntr,ns),bpv,bs,'convert EXC',type(e).__name__,str(e)[:80]); continue
    with SgzReader(q) as r, seismic_zfp.open(q) as f, segyio.open(p, strict=False, ignore_geometry=True) as s:
        B=r.blockshape; rate=r.rate
        # independent expected image: pad by edge replication to block multiples, compress whole 2D array per block
        P1=-(-ntr//B[1])*B[1]; P2=-(-ns//B[2])*B[2]
        pad=np.pad(a,((0,P1-ntr),(0,P2-ns)),mode='edge')
        exp=np.zeros_like(pad)
        for i in range(0,P1,B[1]):
            for j in range(0,P2,B[2]):
                blk=np.ascontiguousarray(pad[i:i+B[1],j:j+B[2]])
                exp[i:i+B[1],j:j+B[2]]=zfpy._decompress(zfpy.compress_numpy(blk,rate=rate,write_header=False), zfpy.dtype_to_ztype(np.dtype('float32')), blk.shape, rate=rate)
        got=np.array([r.get_trace(i) for i in range(ntr)])
        ok1=np.array_equal(got, exp[:ntr,:ns])
        sub=r.read_subplane(1,min(ntr,7),1,min(ns,9)); ok2=np.array_equal(sub, exp[1:min(ntr,7),1:min(ns,9)])
        w=r.get_trace(ntr-1, 1, ns); ok3=np.array_equal(w, exp[ntr-1,1:ns])
        hdr=all(f.header[i][21]==s.header[i][21] and f.header[i][73]==s.header[i][73] for i in range(ntr))
        okc=(r.tracecount==ntr and len(r.zslices)==ns)
        flag='' if (ok1 and ok2 and ok3 and hdr and okc) else '   <<<<<'
        if flag: bad+=1
        print((ntr,ns),bpv,bs,'->',B,rate,'traces',ok1,'subplane',ok2,'window',ok3,'headers',hdr,'counts',okc,flag)
    os.remove(q)
print('bad',bad)
