import sys
sys.path.insert(0,'/repo'); sys.path.insert(1,'/tmp/shim')
import vshim
import numpy as np, os, traceback
from seismic_zfp.read import SgzReader
from seismic_zfp.conversion import SgzConverter
from seismic_zfp.cropping import SgzCropper
import seismic_zfp
T='/repo/test_data/'
for fn in ('small-2d.sgz','small-irregular.sgz','small_hole.sgz','small_v0.0.1.sgz','small-dec_8bit.sgz','small_8bit-8x8.sgz'):
    out='/tmp/pcrop-out.sgz'
    for what in ('crop','adv'):
        if os.path.exists(out): os.remove(out)
        try:
            if what=='crop':
                with SgzCropper(T+fn) as c:
                    c.write_cropped_file_by_indexes(out, (0,4), (0,4), (0,8))
            else:
                with SgzConverter(T+fn) as c:
                    c.convert_to_adv_sgz(out)
            with SgzReader(T+fn) as a, SgzReader(out) as b:
                if what=='crop':
                    ref=a.read_subvolume(0,4,0,4,0,8) if a.is_3d else None
                    got=b.read_volume() if b.is_3d else None
                    print(fn, what, 'written', b.n_ilines, b.n_xlines, b.n_samples, 'equal' if ref is not None and np.array_equal(ref,got) else 'DIFF', 'structured', a.structured, b.structured, 'tracecount', a.tracecount, b.tracecount)
                else:
                    eq=np.array_equal(a.read_volume(), b.read_volume()); print(fn, what, 'written', b.blockshape, 'equal' if eq else 'DIFF', 'tracecount', a.tracecount, b.tracecount, 'structured', a.structured, b.structured)
        except BaseException as e:
            print(fn, what, 'EXC', type(e).__name__, str(e)[:100])
    if os.path.exists(out): os.remove(out)
