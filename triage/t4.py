from mk import *
import os, io
# C07: count I/O for inline read
cube, ils, xls = make_segy('/tmp/triage/r.sgy', 12, 12, 40)
with SegyConverter('/tmp/triage/r.sgy') as c:
    c.run('/tmp/triage/r.sgz', bits_per_voxel=8)
class CF:
    def __init__(s, p): s.f=open(p,'rb'); s.name=p; s.log=[]; s.pos=0
    def seek(s,o,w=0): s.pos=o; return s.f.seek(o,w)
    def read(s,n=-1):
        b=s.f.read(n); s.log.append((s.pos,n,len(b))); s.pos+=len(b); return b
    def close(s): s.f.close()
f=CF('/tmp/triage/r.sgz')
r=SgzReader(f)
print('chunk_bytes',r.chunk_bytes,'shape_pad',r.shape_pad,'blockshape',r.blockshape, 'diskblocks', r.compressed_data_diskblocks)
f.log.clear(); r.read_inline(0); print('inline0', f.log, 'needed', r.chunk_bytes*r.shape_pad[1]//4)
f.log.clear(); r.read_inline(8); print('inline8', f.log)
