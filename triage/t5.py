from mk import *
import hashlib
# C20: 2D hash
def make_2d(path, n_tr, n_s, seed=1):
    rng=np.random.default_rng(seed)
    spec=segyio.spec(); spec.format=5; spec.samples=np.arange(n_s)*4.0; spec.tracecount=n_tr
    data=np.cumsum(rng.standard_normal((n_tr,n_s)).astype(np.float32),axis=1).astype(np.float32)
    with segyio.create(path,spec) as f:
        for t in range(n_tr):
            f.header[t]={segyio.su.cdpx:1000+t, segyio.su.cdpy:5000-t, segyio.su.ns:n_s, segyio.su.dt:4000, segyio.su.tracf:t+1}
            f.trace[t]=data[t]
        f.bin.update(hdt=4000,hns=n_s)
    return data
for n_tr in (16, 25, 40):
    d=make_2d('/tmp/triage/l.sgy', n_tr, 30)
    with SegyConverter('/tmp/triage/l.sgy') as c:
        c.run('/tmp/triage/l.sgz', bits_per_voxel=8)
    with SgzReader('/tmp/triage/l.sgz') as r:
        print(n_tr, r.blockshape, r.get_source_data_hash()==hashlib.sha1(d.tobytes()).hexdigest(), r.tracecount)
        v=np.stack([r.get_trace(i) for i in range(n_tr)])
        print('  maxerr', np.abs(v-d).max())
        try:
            t=r.get_trace(n_tr+2); print('  get_trace(n+2) returned', t.shape)
        except Exception as e: print('  get_trace(n+2) raised', type(e).__name__)
        try:
            t=r.get_trace(-1); print('  get_trace(-1) returned', t.shape, np.abs(t-d[-1]).max())
        except Exception as e: print('  get_trace(-1) raised', type(e).__name__)
