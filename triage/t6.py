from mk import *
cube, ils, xls = make_segy('/tmp/triage/w.sgy', 9, 10, 24, il0=100, xl0=500)
# C11: window not at zero
with SegyConverter('/tmp/triage/w.sgy', min_il=2, max_il=7, min_xl=1, max_xl=9) as c:
    c.run('/tmp/triage/w.sgz', bits_per_voxel=16)
with SgzReader('/tmp/triage/w.sgz') as r:
    print('shape', r.n_ilines, r.n_xlines, r.tracecount, r.structured, 'ilines', r.ilines, 'xlines', r.xlines)
    v=r.read_volume(); print('maxerr vs window', np.abs(v-cube[2:7,1:9]).max())
    print('hdr entry len', r.header_entry_length_bytes, 'arrays', r.n_header_arrays)
    il=r.get_tracefield_values(189); xl=r.get_tracefield_values(193)
    print(il); print(xl)
# window at zero
with SegyConverter('/tmp/triage/w.sgy', min_il=0, max_il=5, min_xl=0, max_xl=4) as c:
    c.run('/tmp/triage/w0.sgz', bits_per_voxel=16)
with SgzReader('/tmp/triage/w0.sgz') as r:
    print('window@0 shape', r.n_ilines, r.n_xlines)
