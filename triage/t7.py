from mk import *
import os
cube, ils, xls = make_segy('/tmp/triage/c.sgy', 12, 20, 600, il0=100, xl0=500)
def conv(out, **kw):
    with SegyConverter('/tmp/triage/c.sgy') as c: c.run(out, **kw)
# C01/C19: blockshape (4,8,128) at 8 bit, z spans several blocks (600 -> 640 = 5 blocks)
conv('/tmp/triage/c48.sgz', bits_per_voxel=8, blockshape=(4,8,128))
with SgzReader('/tmp/triage/c48.sgz') as r:
    v=r.read_volume(); print('(4,8,128) maxerr', np.abs(v-cube).max())
conv('/tmp/triage/c44.sgz', bits_per_voxel=8)
with SgzReader('/tmp/triage/c44.sgz') as r:
    v44=r.read_volume(); print('(4,4,-1) maxerr', np.abs(v44-cube).max(), r.blockshape)
conv('/tmp/triage/c88.sgz', bits_per_voxel=8, blockshape=(8,8,64))
with SgzReader('/tmp/triage/c88.sgz') as r:
    v=r.read_volume(); print('(8,8,64) maxerr', np.abs(v-cube).max())
# C10 crop default layout
with SgzCropper('/tmp/triage/c44.sgz') as cr:
    cr.write_cropped_file_by_indexes('/tmp/triage/crop.sgz', (4,8), (4,12), (0,600))
with SgzReader('/tmp/triage/crop.sgz') as r:
    print('crop: n', r.n_ilines, r.n_xlines, r.n_samples, 'tracecount', r.tracecount, 'structured', r.structured, r.ilines, r.xlines[:3])
    print(' vol equal', np.array_equal(r.read_volume(), v44[4:8,4:12,:]))
    print(' il hdr', r.get_tracefield_values(189)[:, 0], ' xl hdr', r.get_tracefield_values(193)[0,:])
    print(' size', os.path.getsize('/tmp/triage/crop.sgz'), 'expected', 8192+r.compressed_data_diskblocks*4096 + r.n_header_arrays*r.padded_header_entry_length_bytes, r.n_header_arrays, r.header_entry_length_bytes)
# crop non default layout
try:
    with SgzCropper('/tmp/triage/c88.sgz') as cr:
        cr.write_cropped_file_by_indexes('/tmp/triage/crop88.sgz', (0,8), (8,16), (0,600))
    with SgzReader('/tmp/triage/crop88.sgz') as r, SgzReader('/tmp/triage/c88.sgz') as r0:
        print('crop88 equal', np.array_equal(r.read_volume(), r0.read_volume()[0:8,8:16,:]))
except Exception as e: print('crop88 raised', type(e).__name__, e)
# inverted
try:
    with SgzCropper('/tmp/triage/c44.sgz') as cr:
        cr.write_cropped_file_by_indexes('/tmp/triage/cropinv.sgz', (8,4), None, None)
    print('inverted crop wrote file', os.path.exists('/tmp/triage/cropinv.sgz'))
except Exception as e: print('inverted raised', type(e).__name__, e)
