from mk import *
import os
with SgzReader('/tmp/triage/c44.sgz') as r:
    print('n_samples', r.n_samples, 'pad', r.shape_pad)
    for a in [(0,0,603),(0,590,640),(0,10,5),(0,-3,5),(0,600,600), (0, 0, 641)]:
        try:
            t=r.get_trace(*a); print(a,'returned',t.shape)
        except Exception as e: print(a,'raised',type(e).__name__)
    # diagonal sample window
    for kw in [dict(min_sample_idx=0,max_sample_idx=620), dict(min_cd_idx=0,max_cd_idx=3,min_sample_idx=590,max_sample_idx=610)]:
        try:
            t=r.read_correlated_diagonal(0, **kw); print(kw,'returned',t.shape)
        except Exception as e: print(kw,'raised',type(e).__name__)
    # gen_trace_header index beyond tracecount in irregular
with SgzReader('/tmp/triage/irr.sgz') as r:
    print('irr tracecount', r.tracecount, 'grid', r.n_ilines*r.n_xlines)
    for i in (27, 28, 29, -1):
        try:
            h=r.gen_trace_header(i); print('hdr',i,'returned il',h[189])
        except Exception as e: print('hdr',i,'raised',type(e).__name__)
        try:
            t=r.get_trace(i); print('trace',i,'returned',t.shape)
        except Exception as e: print('trace',i,'raised',type(e).__name__)
# fault injection: submit swallow
import seismic_zfp.utils as U
with SgzReader('/tmp/triage/c44.sgz') as r:
    good=r.read_crossline(3).copy()
    r.loader.clear_cache()
    n=[0]
    orig=r.file.read_range
    def bad(f,o,l):
        n[0]+=1
        if n[0]==2: raise IOError('boom')
        return orig(f,o,l)
    r.file.read_range=bad
    try:
        x=r.read_crossline(3); print('xl under fault returned; equal to good?', np.array_equal(x,good))
    except Exception as e: print('xl under fault raised', type(e).__name__)
