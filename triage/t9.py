from mk import *
from segyio import TraceField as TF
import seismic_zfp.utils as U
# D3 numpy header order
a = np.random.rand(5,6,20).astype(np.float32)
sp = np.arange(30,dtype=np.int32).reshape(5,6)+7000
with NumpyConverter(a, trace_headers={TF.ShotPoint: sp}) as c:   # 197 > 193
    c.trace_headers = {k: np.ascontiguousarray(v).astype(np.int32) for k,v in c.trace_headers.items()}
    print('write order', [int(k) for k in c.trace_headers])
    c.run('/tmp/triage/n.sgz', bits_per_voxel=8)
with SgzReader('/tmp/triage/n.sgz') as r:
    print('stored keys', [int(k) for k in r.stored_header_keys])
    print('ShotPoint ok?', np.array_equal(r.get_tracefield_values(TF.ShotPoint), sp), r.get_tracefield_values(TF.ShotPoint)[0])
    print('INLINE', r.get_tracefield_values(189)[:,0])
# D26/D27
print('D27 gen_coord_list(0,0.1,3) len', len(U.gen_coord_list(0,0.1,3)))
bad=[(dt,n) for dt in range(1,5000,7) for n in (3,50,751,1501) if len(U.gen_coord_list(0, dt/1000, n))!=n]
print('D27 bad (dt_us,n) examples', bad[:8], len(bad))
print('D26 1001us ->', U.np_float_to_bytes_signed(1000.0*np.array(1.001-0.0)), int((1000.0*np.array(1.001)).astype(int)))
# D25
print('D25', U.define_blockshape_3d(3,(4,4,-1)), U.define_blockshape_3d(4,(4,2,-1)), U.define_blockshape_3d(-1,(4,4,100)))
