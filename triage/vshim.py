import warnings
warnings.filterwarnings("ignore")
import pkg_resources
class _D: version = '0.2.9'
_orig = pkg_resources.get_distribution
def _gd(name):
    return _D() if name == 'seismic_zfp' else _orig(name)
pkg_resources.get_distribution = _gd
